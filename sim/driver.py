"""
Batch driver: fork pool, budgets, watchdog, minimisation, replay files,
known findings, evidence writer, self-tests.  See DESIGN.md section 3.
"""
import faulthandler
import importlib
import json
import multiprocessing
import os
import subprocess
import sys
import time
import traceback
import warnings
from concurrent.futures import ProcessPoolExecutor

from . import core, minimise

ROOT = os.path.dirname(os.path.dirname(os.path.abspath(__file__)))
REPLAYS = os.path.join(ROOT, 'replays')
EVIDENCE = os.path.join(ROOT, 'evidence')
KNOWN = os.path.join(ROOT, 'known_findings.json')
SIMCHECK = os.path.join(ROOT, 'bin', 'simcheck')

PROPS = {'C10': 'sim.c10_lists', 'C17': 'sim.c17_frame'}
TIERS = {
    'quick': {'runs_per_worker': {'C10': 5000, 'C17': 1500}, 'budget_s': 45},
    'thorough': {'runs_per_worker': {'C10': 10 ** 9, 'C17': 10 ** 9}, 'budget_s': 600},
}
MAX_VIOL_PER_WORKER = 6
MAX_CLASSES_TO_MINIMISE = 8


def load(prop):
    if prop not in PROPS:
        raise core.HarnessError('no simulation for property %s' % prop)
    return importlib.import_module(PROPS[prop])


def check_environment():
    warnings.simplefilter('ignore')
    os.environ.setdefault('MPLBACKEND', 'Agg')
    import spatialmath
    f = os.path.realpath(spatialmath.__file__)
    if not f.startswith('/repo/'):
        raise core.HarnessError('spatialmath imported from %s, not from /repo' % f)
    return f


# --------------------------------------------------------------------------- #
# worker

def _merge_stats(dst, src):
    for k, v in src.items():
        if isinstance(v, set):
            dst.setdefault(k, set()).update(v)
        elif isinstance(v, dict):
            _merge_stats(dst.setdefault(k, {}), v)
        else:
            dst[k] = dst.get(k, 0) + v


def worker(prop, batch_seed, w, n_runs, budget_s, start_index=0):
    try:
        mod = load(prop)
        faulthandler.dump_traceback_later(budget_s + 180, exit=True)
        t0 = time.monotonic()
        stats = {}
        res = {'w': w, 'runs': 0, 'steps': 0, 'nontrivial': set(), 'digests': 0,
               'violations': [], 'samples': [], 'first_seed': None, 'last_seed': None,
               'fault_free_runs': 0, 'fault_runs': 0, 'error': None}
        alld = set()
        for i in range(start_index, start_index + n_runs):
            if (i & 15) == 0 and time.monotonic() - t0 > budget_s:
                break
            seed = core.run_seed(batch_seed, mod.SALT, w, i)
            r = mod.generate_and_run(seed, stats)
            res['runs'] += 1
            res['steps'] += len(r['log'])
            if res['first_seed'] is None:
                res['first_seed'] = seed
            res['last_seed'] = seed
            if r['cfg'].get('fault_rate', 0):
                res['fault_runs'] += 1
            else:
                res['fault_free_runs'] += 1
            d = int(core.digest({'ops': r['ops'], 'log': r['log']})[:16], 16)
            alld.add(d)
            if mod.nontrivial(r['ops'], r['log']):
                res['nontrivial'].add(d)
                if w == 0 and len(res['samples']) < 3 and 3 <= len(r['ops']) <= 14:
                    res['samples'].append({'run_seed': seed, 'config': r['cfg'], 'ops': r['ops'],
                                           'outcomes': [o.get('r') for o in r['log']]})
            v = r['violation']
            if v is not None and len(res['violations']) < MAX_VIOL_PER_WORKER:
                res['violations'].append({'seed': seed, 'w': w, 'i': i, 'cfg': r['cfg'],
                                          'ops': r['ops'], 'violation': v.to_json()})
            elif v is not None:
                res['more_violations'] = res.get('more_violations', 0) + 1
        res['digests'] = len(alld)
        res['stats'] = stats
        res['wall'] = time.monotonic() - t0
        faulthandler.cancel_dump_traceback_later()
        return res
    except BaseException:                                            # noqa: BLE001
        return {'w': w, 'error': traceback.format_exc()}


# --------------------------------------------------------------------------- #
# known findings

def load_known():
    if not os.path.exists(KNOWN):
        return []
    with open(KNOWN) as f:
        return json.load(f).get('findings', [])


def _match_one(want, have):
    if isinstance(want, list):
        return have in want
    return have == want


def finding_matches(entry, prop, vj, ops):
    """Does the (minimised) violation vj with op list ops match a known-finding entry?"""
    if entry.get('property') != prop or entry.get('status') != 'open':
        return False
    m = entry.get('match', {})
    if 'oracle' in m and not _match_one(m['oracle'], vj['oracle']):
        return False
    if 'op' in m and not _match_one(m['op'], vj['op']):
        return False
    last = ops[-1] if ops else {}
    for k, want in m.get('record', {}).items():
        if not _match_one(want, last.get(k)):
            return False
    for k, want in m.get('detail', {}).items():
        if not _match_one(want, vj['detail'].get(k)):
            return False
    return True


# --------------------------------------------------------------------------- #
# replay files

def write_replay(prop, seed, cfg, ops, vj, original_len):
    os.makedirs(REPLAYS, exist_ok=True)
    path = os.path.join(REPLAYS, '%s-%d.json' % (prop, seed))
    with open(path, 'w') as f:
        json.dump({'property': prop, 'run_seed': seed, 'config': cfg,
                   'original_steps': original_len, 'ops': ops, 'violation': vj},
                  f, indent=1, sort_keys=True)
    return path


def replay_file(path, quiet=False):
    """Execute a replay file.  Returns (reproduced?, observed violation json or None)."""
    with open(path) as f:
        rp = json.load(f)
    mod = load(rp['property'])
    log, v = mod.execute(rp['ops'])
    want = rp['violation']
    ok = (v is not None and v.oracle == want['oracle'] and v.op == want['op']
          and v.step == want['step'])
    if not quiet:
        if ok:
            print('REPRODUCED property=%s oracle=%s step=%d op=%s' %
                  (rp['property'], v.oracle, v.step, v.op))
            print(json.dumps(v.detail, sort_keys=True))
        elif v is not None:
            print('DIFFERENT-VIOLATION property=%s oracle=%s step=%d op=%s (file says %s at %d)' %
                  (rp['property'], v.oracle, v.step, v.op, want['oracle'], want['step']))
        else:
            print('NOT-REPRODUCED property=%s: %d steps ran clean' % (rp['property'], len(log)))
    return ok, (v.to_json() if v is not None else None)


def fresh_process_replay(path):
    env = dict(os.environ)
    env['PYTHONHASHSEED'] = '12345'
    p = subprocess.run([sys.executable, '-B', SIMCHECK, 'replay', path],
                       capture_output=True, text=True, env=env, timeout=300)
    return p.returncode == 1 and 'REPRODUCED' in p.stdout, p.stdout + p.stderr


# --------------------------------------------------------------------------- #
# batch

def _jsonable_stats(stats):
    out = {}
    for k in sorted(stats):
        v = stats[k]
        if isinstance(v, set):
            out[k] = len(v)
        elif isinstance(v, dict):
            out[k] = _jsonable_stats(v)
        else:
            out[k] = v
    return out


def run_batch(prop, tier, batch_seed, workers, runs_per_worker, budget_s):
    mod = load(prop)
    t0 = time.monotonic()
    ctx = multiprocessing.get_context('fork')
    results = []
    with ProcessPoolExecutor(max_workers=workers, mp_context=ctx) as ex:
        futs = [ex.submit(worker, prop, batch_seed, w, runs_per_worker, budget_s)
                for w in range(workers)]
        for f in futs:
            try:
                results.append(f.result(timeout=budget_s + 240))
            except Exception as e:                                   # noqa: BLE001
                for p in list(getattr(ex, '_processes', {}).values()):
                    p.kill()
                raise core.HarnessError('worker died or timed out: %r' % (e,))
    for r in results:
        if r.get('error'):
            raise core.HarnessError('worker %s failed:\n%s' % (r['w'], r['error']))
    wall_search = time.monotonic() - t0

    stats = {}
    nontrivial = set()
    agg = {'runs': 0, 'steps': 0, 'digests': 0, 'fault_runs': 0, 'fault_free_runs': 0}
    viols, samples, more = [], [], 0
    for r in results:
        _merge_stats(stats, r['stats'])
        nontrivial |= r['nontrivial']
        for k in agg:
            agg[k] += r[k]
        viols.extend(r['violations'])
        samples.extend(r['samples'])
        more += r.get('more_violations', 0)

    # ---- violations: group, minimise, match known findings, replay in a fresh process
    known = load_known()
    reported, known_hit, seen_classes = [], {}, {}
    viols.sort(key=lambda v: (v['w'], v['i']))
    for v in viols:
        vj = v['violation']
        key = (vj['oracle'], vj['op'], str(vj['detail'].get('what')), str(vj['detail'].get('why')))
        seen_classes.setdefault(key, []).append(v)
    n_min = 0
    for key in sorted(seen_classes):
        if n_min >= MAX_CLASSES_TO_MINIMISE:
            break
        v = seen_classes[key][0]
        n_min += 1
        target = (prop, v['violation']['oracle'], v['violation']['op'])

        def test(ops, target=target):
            _, vv = mod.execute(ops)
            return vv is not None and vv.klass() == target

        small = minimise.minimise(v['ops'], test, mod.simplify)
        _, vv = mod.execute(small)
        if vv is None:
            raise core.HarnessError('violation of run seed %d did not replay in-process '
                                    '(non-deterministic harness?)' % v['seed'])
        small = small[:vv.step + 1]
        vj = vv.to_json()
        hit = [e for e in known if finding_matches(e, prop, vj, small)]
        if hit:
            known_hit.setdefault(hit[0]['id'], hit[0])
            continue
        path = write_replay(prop, v['seed'], v['cfg'], small, vj, len(v['ops']))
        ok, out = fresh_process_replay(path)
        if not ok:
            raise core.HarnessError('replay file %s did not reproduce in a fresh process:\n%s'
                                    % (path, out))
        reported.append({'replay': path, 'violation': vj, 'steps': len(small),
                         'original_steps': len(v['ops']), 'run_seed': v['seed']})

    wall = time.monotonic() - t0
    hours = max(wall_search, 1e-9) / 3600.0
    cov = {
        'evaluations': agg['steps'],
        'runs': agg['runs'],
        'distinct_nontrivial': len(nontrivial),
        'distinct_runs': agg['digests'],
        'rule': mod.RULE,
        'samples': samples[:3],
        'run_seeds': {'derivation': 'splitmix64 chain over (VERIF_SEED, property salt %d, worker, index)'
                                    % mod.SALT,
                      'batch_seed': batch_seed, 'workers': workers,
                      'first': [r['first_seed'] for r in results][:4],
                      'last': [r['last_seed'] for r in results][:4]},
        'runs_per_hour': int(agg['runs'] / hours),
        'steps_per_hour': int(agg['steps'] / hours),
        'fault_free_runs': agg['fault_free_runs'],
        'fault_injecting_runs': agg['fault_runs'],
        'simulated_time': 'not applicable: the system has no clock; progress is counted in steps',
        'components': {'real': ['spatialmath (all modules, imported from /repo)', 'numpy', 'scipy'],
                       'stubbed': [],
                       'seams': mod.SEAMS},
        'violating_runs_seen': len(viols) + more,
        'violation_classes': [list(k) for k in sorted(seen_classes)],
        'known_findings_hit': sorted(known_hit),
        'exhaustive': False,
    }
    cov.update(mod.summarise(_jsonable_stats(stats), stats))
    ev = {
        'property_id': prop, 'tier': tier, 'seed': batch_seed, 'level': 'exploration',
        'coverage': cov,
        'assumptions': mod.ASSUMPTIONS,
        'wall_s': round(wall, 3),
        'violations': len(reported),
    }
    os.makedirs(EVIDENCE, exist_ok=True)
    with open(os.path.join(EVIDENCE, '%s.json' % prop), 'w') as f:
        json.dump(ev, f, indent=1, sort_keys=True, default=str)
    return ev, reported, list(known_hit.values())


def cmd_check(tier, prop):
    check_environment()
    batch_seed = int(os.environ.get('VERIF_SEED', '0') or 0)
    workers = int(os.environ.get('VERIF_WORKERS', '0') or 0) or min(16, os.cpu_count() or 1)
    t = TIERS[tier]
    budget = float(os.environ.get('VERIF_BUDGET_S', '0') or 0) or t['budget_s']
    runs = int(os.environ.get('VERIF_RUNS', '0') or 0) or t['runs_per_worker'][prop]
    print('simcheck %s %s: VERIF_SEED=%d workers=%d runs/worker<=%d budget=%ss' %
          (tier, prop, batch_seed, workers, runs, budget))
    sys.stdout.flush()
    # small determinism sample first: a harness that does not replay decides nothing
    bad = determinism_sample(prop, batch_seed, 24)
    if bad:
        raise core.HarnessError('determinism self-test failed for run seeds %s' % bad[:5])
    ev, reported, known_hit = run_batch(prop, tier, batch_seed, workers, runs, budget)
    c = ev['coverage']
    print('runs=%d steps=%d distinct_nontrivial=%d wall=%.1fs runs/h=%d' %
          (c['runs'], c['evaluations'], c['distinct_nontrivial'], ev['wall_s'], c['runs_per_hour']))
    for e in known_hit:
        print('KNOWN-FINDING: property=%s %s' % (prop, e['summary']))
    for r in reported:
        print('VIOLATION property=%s replay=%s' % (prop, r['replay']))
        print('  oracle=%s op=%s minimised %d -> %d steps; %s' %
              (r['violation']['oracle'], r['violation']['op'], r['original_steps'], r['steps'],
               json.dumps(r['violation']['detail'], sort_keys=True)[:400]))
    return 1 if reported else 0


# --------------------------------------------------------------------------- #
# self-tests

def determinism_sample(prop, batch_seed, n):
    """Run n run-seeds twice in-process; return the seeds whose digests differ."""
    mod = load(prop)
    bad = []
    for i in range(n):
        seed = core.run_seed(batch_seed, mod.SALT, 999, i)
        a = mod.generate_and_run(seed)
        b = mod.generate_and_run(seed)
        da = core.digest({'ops': a['ops'], 'log': a['log']})
        db = core.digest({'ops': b['ops'], 'log': b['log']})
        # and replay from the op records alone
        log, v = mod.execute(a['ops'])
        dc = core.digest({'ops': a['ops'], 'log': log})
        if not (da == db == dc):
            bad.append(seed)
    return bad


def _digests(prop, batch_seed, w, lo, hi):
    mod = load(prop)
    out = []
    for i in range(lo, hi):
        seed = core.run_seed(batch_seed, mod.SALT, w, i)
        r = mod.generate_and_run(seed)
        out.append(core.digest({'ops': r['ops'], 'log': r['log'],
                                'v': r['violation'].to_json() if r['violation'] else None}))
    return out


def cmd_digests(prop, batch_seed, w, lo, hi):
    check_environment()
    for d in _digests(prop, batch_seed, w, lo, hi):
        print(d)
    return 0


def cmd_selftest_determinism(prop, n):
    """n run seeds: twice in-process, once via a 16-process fork pool, once in a fresh
    interpreter under another PYTHONHASHSEED; all digests must agree."""
    check_environment()
    batch_seed = int(os.environ.get('VERIF_SEED', '0') or 0)
    a = _digests(prop, batch_seed, 7, 0, n)
    b = _digests(prop, batch_seed, 7, 0, n)
    ctx = multiprocessing.get_context('fork')
    chunks = [(k * n // 16, (k + 1) * n // 16) for k in range(16)]
    with ProcessPoolExecutor(max_workers=16, mp_context=ctx) as ex:
        parts = list(ex.map(_digests, [prop] * 16, [batch_seed] * 16, [7] * 16,
                            [c[0] for c in chunks], [c[1] for c in chunks]))
    c = [d for p in parts for d in p]
    env = dict(os.environ)
    env['PYTHONHASHSEED'] = '987'
    p = subprocess.run([sys.executable, '-B', SIMCHECK, 'digests', prop, str(batch_seed), '7',
                        '0', str(n)], capture_output=True, text=True, env=env, timeout=3600)
    d = [l for l in p.stdout.split('\n') if len(l) == 64]
    bad = [i for i in range(n) if not (a[i] == b[i] == c[i] and i < len(d) and d[i] == a[i])]
    print('determinism self-test %s: %d seeds, %d mismatches (in-process x2, 16-proc pool, '
          'fresh interpreter PYTHONHASHSEED=987)' % (prop, n, len(bad)))
    if bad:
        print('mismatching indices:', bad[:20])
        if p.returncode != 0:
            print(p.stderr[-2000:])
        return 2
    return 0


def main(argv=None):
    argv = list(sys.argv[1:] if argv is None else argv)
    try:
        if not argv:
            print('usage: simcheck quick|thorough <prop> | replay <file> | '
                  'selftest-determinism <prop> [n] | digests ...')
            return 2
        cmd = argv[0]
        if cmd in ('quick', 'thorough'):
            return cmd_check(cmd, argv[1])
        if cmd == 'replay':
            check_environment()
            ok, _ = replay_file(argv[1])
            return 1 if ok else 0
        if cmd == 'selftest-determinism':
            return cmd_selftest_determinism(argv[1], int(argv[2]) if len(argv) > 2 else 400)
        if cmd == 'digests':
            return cmd_digests(argv[1], int(argv[2]), int(argv[3]), int(argv[4]), int(argv[5]))
        print('unknown command', cmd)
        return 2
    except core.HarnessError as e:
        print('HARNESS-ERROR: %s' % e)
        return 2
    except Exception:                                                # noqa: BLE001
        print('HARNESS-ERROR: unexpected exception in the harness')
        traceback.print_exc()
        return 2
