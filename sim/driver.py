"""
Batch driver: fork pool, epochs in pristine child processes, budgets, watchdog,
minimisation, replay files, known findings, evidence writer, self-tests.
See DESIGN.md section 3.

Process discipline: the driver process and the pool workers import the package under
test but never *call* it.  Every simulated run, every minimisation test and every
determinism probe executes in a child forked from such a pristine process, so that
state the library may keep between calls (a module-level buffer, a counter, a shared
default list) can never leak from one experiment into another unnoticed.  Runs inside
one epoch share a process on purpose: a history is allowed to span runs, and when a
violation only shows up because of what earlier runs of the epoch left behind, the
replay file contains those earlier runs too (separated by 'reset' records).
"""
import faulthandler
import importlib
import json
import multiprocessing
import os
import pickle
import signal
import subprocess
import sys
import time
import traceback
import warnings
from concurrent.futures import ProcessPoolExecutor

from . import core, minimise

ROOT = os.path.dirname(os.path.dirname(os.path.abspath(__file__)))
REPLAYS = os.environ.get('VERIF_REPLAY_DIR') or os.path.join(ROOT, 'replays')
# VERIF_REPO is used only by the mutant self-test (scratch copies); registered checks use /repo
REPO = os.path.realpath(os.environ.get('VERIF_REPO') or '/repo')
EVIDENCE = os.path.join(ROOT, 'evidence')
KNOWN = os.environ.get('VERIF_KNOWN_FINDINGS') or os.path.join(ROOT, 'known_findings.json')
SIMCHECK = os.path.join(ROOT, 'bin', 'simcheck')

PROPS = {'C10': 'sim.c10_lists', 'C17': 'sim.c17_frame'}
TIERS = {
    'quick': {'runs_per_worker': {'C10': 6000, 'C17': 3000}, 'budget_s': 150},
    'thorough': {'runs_per_worker': {'C10': 10 ** 9, 'C17': 10 ** 9}, 'budget_s': 600},
}
EPOCH_RUNS = {'C10': 500, 'C17': 250}
MAX_VIOL_PER_EPOCH = 3
MAX_CLASSES_TO_MINIMISE = 8
RESET = {'op': 'reset'}


def load(prop):
    if prop not in PROPS:
        raise core.HarnessError('no simulation for property %s' % prop)
    return importlib.import_module(PROPS[prop])


def mod_of(prop):
    return load(prop)


def check_environment():
    warnings.simplefilter('ignore')
    os.environ.setdefault('MPLBACKEND', 'Agg')
    if REPO != '/repo':
        sys.path.insert(0, REPO)
        os.environ['PYTHONPATH'] = REPO
    import spatialmath
    f = os.path.realpath(spatialmath.__file__)
    if not f.startswith(REPO + '/'):
        raise core.HarnessError('spatialmath imported from %s, not from %s' % (f, REPO))
    return f


# --------------------------------------------------------------------------- #
# pristine child processes

def in_fork(fn, *args, timeout=600):
    """Run fn(*args) in a forked child and return its (pickled) result.
    Raises HarnessError when the child dies, times out or raises."""
    r, w = os.pipe()
    pid = os.fork()
    if pid == 0:
        code = 0
        try:
            os.close(r)
            try:
                res = ('ok', fn(*args))
            except BaseException:                                    # noqa: BLE001
                res = ('err', traceback.format_exc())
            with os.fdopen(w, 'wb') as f:
                pickle.dump(res, f, protocol=pickle.HIGHEST_PROTOCOL)
        except BaseException:                                        # noqa: BLE001
            code = 3
        finally:
            os._exit(code)
    os.close(w)
    chunks = []
    deadline = time.monotonic() + timeout
    import select
    with os.fdopen(r, 'rb') as f:
        while True:
            left = deadline - time.monotonic()
            if left <= 0:
                os.kill(pid, signal.SIGKILL)
                os.waitpid(pid, 0)
                raise core.HarnessError('child process timed out after %ss' % timeout)
            ready, _, _ = select.select([f], [], [], min(left, 5.0))
            if ready:
                b = os.read(f.fileno(), 1 << 20)
                if not b:
                    break
                chunks.append(b)
    os.waitpid(pid, 0)
    data = b''.join(chunks)
    if not data:
        raise core.HarnessError('child process died without a result')
    status, val = pickle.loads(data)
    if status != 'ok':
        raise core.HarnessError('child process failed:\n%s' % val)
    return val


def execute_history(mod, ops, stats=None, want=None):
    """Replay op records (possibly several runs separated by 'reset') without any PRNG.
    A violation ends the run it occurs in, exactly as it did when the history was recorded;
    if it is not of the class `want` (property, oracle, op) and a later run follows, execution
    continues with that run.  Returns (log, violation or None); the violation's step is the
    index into ops."""
    world = mod.World(stats)
    log = []
    k = 0
    n = len(ops)
    while k < n:
        rec = ops[k]
        if rec.get('op') == 'reset':
            world = mod.World(stats)
            log.append({'r': 'reset'})
            k += 1
            continue
        try:
            log.append(world.step(rec))
        except core.Violation as v:
            v.step = k
            nxt = next((j for j in range(k + 1, n) if ops[j].get('op') == 'reset'), None)
            if want is None or tuple(want) == v.klass() or nxt is None:
                return log, v
            log.extend({'r': 'not-run'} for _ in range(k, nxt))
            k = nxt
            continue
        k += 1
    return log, None


def _exec_child(prop, ops, want):
    mod = load(prop)
    log, v = execute_history(mod, ops, want=want)
    return log, (v.to_json() if v is not None else None)


def pristine_execute(prop, ops, want=None, timeout=900):
    return in_fork(_exec_child, prop, ops, want, timeout=timeout)


# --------------------------------------------------------------------------- #
# worker / epoch

def _merge_stats(dst, src):
    for k, v in src.items():
        if isinstance(v, set):
            dst.setdefault(k, set()).update(v)
        elif isinstance(v, dict):
            _merge_stats(dst.setdefault(k, {}), v)
        elif isinstance(v, list):
            dst.setdefault(k, []).extend(v)
        else:
            dst[k] = dst.get(k, 0) + v


HD_EVERY = 25      # every 25th run of an epoch is re-executed alone in a pristine process


def _comparable(log):
    """Outcome log reduced to what must not depend on what ran earlier in the process."""
    return [{k: v for k, v in o.items() if k != 'heap'} for o in log]


def epoch(prop, batch_seed, w, first_index, n_runs, deadline, prior_upto=None):
    """n_runs consecutive runs in this (freshly forked) process.  With prior_upto=i the epoch
    is only re-generated up to run i and the op lists of the runs before it are returned."""
    mod = load(prop)
    stats = {}
    res = {'runs': 0, 'steps': 0, 'nontrivial': set(), 'alld': set(), 'violations': [],
           'samples': [], 'first_seed': None, 'last_seed': None, 'fault_free_runs': 0,
           'fault_runs': 0, 'more_violations': 0, 'hd_samples': []}
    prior = []          # op lists of the earlier runs of this epoch
    for i in range(first_index, first_index + n_runs):
        if prior_upto is not None and i >= prior_upto:
            return {'prior': prior}
        if prior_upto is None and (i & 7) == 0 and time.monotonic() > deadline:
            break
        seed = core.run_seed(batch_seed, mod.SALT, w, i)
        r = mod.generate_and_run(seed, stats)
        res['runs'] += 1
        res['steps'] += len(r['log'])
        if res['first_seed'] is None:
            res['first_seed'] = seed
        res['last_seed'] = seed
        if r['cfg'].get('fault_rate', 0):
            res['fault_runs'] += 1
        else:
            res['fault_free_runs'] += 1
        d = int(core.digest({'ops': r['ops'], 'log': r['log']})[:16], 16)
        res['alld'].add(d)
        if mod.nontrivial(r['ops'], r['log']):
            res['nontrivial'].add(d)
            if w == 0 and len(res['samples']) < 3 and 3 <= len(r['ops']) <= 14:
                res['samples'].append({'run_seed': seed, 'config': r['cfg'], 'ops': r['ops'],
                                       'outcomes': [o.get('r') for o in r['log']]})
        v = r['violation']
        if v is not None:
            if len(res['violations']) < MAX_VIOL_PER_EPOCH:
                res['violations'].append({'seed': seed, 'w': w, 'i': i, 'cfg': r['cfg'],
                                          'ops': r['ops'], 'violation': v.to_json(),
                                          'prior': [list(p) for p in prior]})
            else:
                res['more_violations'] += 1
        elif (i - first_index) % HD_EVERY == HD_EVERY - 1 and len(r['ops']) > 0 and \
                not any('CallTimeout' in str(o.get('r')) for o in r['log']):
            res['hd_samples'].append({'seed': seed, 'w': w, 'i': i, 'cfg': r['cfg'], 'ops': r['ops'],
                                      'log': _comparable(r['log'])})
        prior.append(r['ops'])
    res['stats'] = stats
    return res


def _first_difference(log_a, log_b):
    for k, (a, b) in enumerate(zip(log_a, log_b)):
        if a != b:
            return k, a, b
    if len(log_a) != len(log_b):
        k = min(len(log_a), len(log_b))
        return k, (log_a[k] if k < len(log_a) else None), (log_b[k] if k < len(log_b) else None)
    return None


def check_history_dependence(prop, batch_seed, w, first_index, n, samples):
    """Re-execute sampled runs alone in pristine processes; a run whose outcomes differ from
    what it did inside the epoch depended on state the library kept from earlier runs."""
    found = []
    for smp in samples:
        log2, vj = in_fork(_exec_child, prop, smp['ops'], None)
        if vj is not None:
            continue        # (cannot happen for a run that was clean in the epoch; be conservative)
        d = _first_difference(smp['log'], _comparable(log2))
        if d is None:
            continue
        k, in_epoch, alone = d
        pr = in_fork(epoch, prop, batch_seed, w, first_index, n, 0, smp['i'], timeout=900)
        rec = smp['ops'][k] if k < len(smp['ops']) else {}
        found.append({'kind': 'history_dependence', 'seed': smp['seed'], 'w': w, 'i': smp['i'],
                      'cfg': smp['cfg'], 'ops': smp['ops'], 'prior': pr['prior'],
                      'violation': {'property': prop, 'oracle': 'history_dependence', 'step': k,
                                    'op': rec.get('key', rec.get('op', '?')),
                                    'detail': {'after_earlier_runs_of_the_process': in_epoch,
                                               'alone_in_a_pristine_process': alone}}})
        break               # one per epoch is enough
    return found


def worker(prop, batch_seed, w, n_runs, budget_s):
    """Pool worker: never calls the package itself; forks one child per epoch."""
    try:
        faulthandler.dump_traceback_later(budget_s + 240, exit=True)
        t0 = time.monotonic()
        deadline = t0 + budget_s
        per = EPOCH_RUNS[prop]
        out = {'w': w, 'runs': 0, 'steps': 0, 'nontrivial': set(), 'alld': set(), 'violations': [],
               'samples': [], 'first_seed': None, 'last_seed': None, 'fault_free_runs': 0,
               'fault_runs': 0, 'more_violations': 0, 'stats': {}, 'epochs': 0, 'error': None}
        i = 0
        while i < n_runs and time.monotonic() < deadline:
            n = min(per, n_runs - i)
            r = in_fork(epoch, prop, batch_seed, w, i, n, deadline, timeout=budget_s + 200)
            out['epochs'] += 1
            out['hd_checked'] = out.get('hd_checked', 0) + len(r['hd_samples'])
            if len(out['violations']) < 8:
                r['violations'].extend(check_history_dependence(prop, batch_seed, w, i, n,
                                                                 r['hd_samples']))
            for k in ('runs', 'steps', 'fault_free_runs', 'fault_runs', 'more_violations'):
                out[k] += r[k]
            out['nontrivial'] |= r['nontrivial']
            out['alld'] |= r['alld']
            if len(out['violations']) < 8:
                out['violations'].extend(r['violations'])
            else:
                out['more_violations'] += len(r['violations'])
            out['samples'].extend(r['samples'])
            if out['first_seed'] is None:
                out['first_seed'] = r['first_seed']
            if r['last_seed'] is not None:
                out['last_seed'] = r['last_seed']
            _merge_stats(out['stats'], r['stats'])
            if r['runs'] < n:
                break
            i += n
        out['digests'] = len(out['alld'])
        del out['alld']
        out['wall'] = time.monotonic() - t0
        faulthandler.cancel_dump_traceback_later()
        return out
    except BaseException:                                            # noqa: BLE001
        return {'w': w, 'error': traceback.format_exc()}


# --------------------------------------------------------------------------- #
# known findings

def load_known():
    if not os.path.exists(KNOWN):
        return []
    with open(KNOWN) as f:
        return json.load(f).get('findings', [])


def _match_one(want, have):
    if isinstance(want, list):
        return have in want
    return have == want


def finding_matches(entry, prop, vj, ops):
    """Does the (minimised) violation vj with op list ops match a known-finding entry?"""
    if entry.get('property') != prop or entry.get('status') != 'open':
        return False
    m = entry.get('match', {})
    if 'oracle' in m and not _match_one(m['oracle'], vj['oracle']):
        return False
    if 'op' in m and not _match_one(m['op'], vj['op']):
        return False
    last = ops[vj['step']] if ops and vj['step'] < len(ops) else {}
    for k, want in m.get('record', {}).items():
        if not _match_one(want, last.get(k)):
            return False
    for k, want in m.get('detail', {}).items():
        if not _match_one(want, vj['detail'].get(k)):
            return False
    return True


# --------------------------------------------------------------------------- #
# replay files

def write_replay(prop, seed, cfg, ops, vj, original_len, note):
    os.makedirs(REPLAYS, exist_ok=True)
    path = os.path.join(REPLAYS, '%s-%d.json' % (prop, seed))
    with open(path, 'w') as f:
        json.dump({'property': prop, 'run_seed': seed, 'config': cfg, 'note': note,
                   'original_steps': original_len, 'ops': ops, 'violation': vj},
                  f, indent=1, sort_keys=True)
    return path


def replay_file(path, quiet=False):
    """Execute a replay file in this process (the replay command starts a fresh interpreter).
    Returns (reproduced?, observed violation json or None)."""
    with open(path) as f:
        rp = json.load(f)
    mod = load(rp['property'])
    want = rp['violation']
    if want['oracle'] == 'history_dependence':
        start = want['detail']['target_start']
        d = _hd_difference(rp['property'], rp['ops'][:start], rp['ops'][start:])
        ok = d is not None and start + d[0] == want['step']
        if not quiet:
            if ok:
                print('REPRODUCED property=%s oracle=history_dependence step=%d op=%s' %
                      (rp['property'], want['step'], want['op']))
                print(json.dumps({'after_earlier_calls_in_the_process': d[1],
                                  'alone_in_a_pristine_process': d[2]}, sort_keys=True, default=str)[:2000])
            else:
                print('NOT-REPRODUCED property=%s: the calls after the last reset behave the same '
                      'with and without the earlier ones' % rp['property'])
        return ok, (want if ok else None)
    log, v = execute_history(mod, rp['ops'], want=(want['property'], want['oracle'], want['op']))
    ok = (v is not None and v.oracle == want['oracle'] and v.op == want['op']
          and v.step == want['step'])
    if not quiet:
        if ok:
            print('REPRODUCED property=%s oracle=%s step=%d op=%s' %
                  (rp['property'], v.oracle, v.step, v.op))
            print(json.dumps(v.detail, sort_keys=True, default=str)[:2000])
        elif v is not None:
            print('DIFFERENT-VIOLATION property=%s oracle=%s step=%d op=%s (file says %s at %d)' %
                  (rp['property'], v.oracle, v.step, v.op, want['oracle'], want['step']))
        else:
            print('NOT-REPRODUCED property=%s: %d steps ran clean' % (rp['property'], len(log)))
    return ok, (v.to_json() if v is not None else None)


def fresh_process_replay(path):
    env = dict(os.environ)
    env['PYTHONHASHSEED'] = '12345'
    p = subprocess.run([sys.executable, '-B', SIMCHECK, 'replay', path],
                       capture_output=True, text=True, env=env, timeout=900)
    return p.returncode == 1 and 'REPRODUCED' in p.stdout, p.stdout + p.stderr


# --------------------------------------------------------------------------- #
# from a violating run to a minimised, confirmed replay

def confirm_and_minimise(prop, mod, v):
    """v: violation record from an epoch.  Returns (ops, violation json, note) or raises."""
    target = (prop, v['violation']['oracle'], v['violation']['op'])

    def same(vj):
        return vj is not None and (vj['property'], vj['oracle'], vj['op']) == target

    def test(ops):
        try:
            _, vj = pristine_execute(prop, ops, target)
        except core.HarnessError:
            return False        # a candidate the harness cannot execute is simply not a reduction
        return same(vj)

    note = 'single run'
    ops = list(v['ops'])
    _, vj = pristine_execute(prop, ops, target)
    if not same(vj):
        # the run behaved differently in a pristine process: what earlier runs of the same
        # epoch left behind in the library matters.  Replay the whole epoch history.
        hist = []
        for p in v['prior']:
            hist.extend(p)
            hist.append(dict(RESET))
        hist.extend(v['ops'])
        _, vj = pristine_execute(prop, hist, target)
        if not same(vj):
            raise core.HarnessError(
                'violation of run seed %d (%s at %s) reproduced neither alone nor with the %d '
                'earlier runs of its epoch in a pristine process' %
                (v['seed'], target[1], target[2], len(v['prior'])))
        note = ('needs library state left behind by earlier runs of the same process: the replay '
                'contains several runs separated by reset records')
        ops = hist
    small = minimise.minimise(ops, test, mod.simplify)
    _, vj = pristine_execute(prop, small, target)
    if not same(vj):
        raise core.HarnessError('minimised history of run seed %d lost the violation' % v['seed'])
    small = small[:vj['step'] + 1]
    while small and small[0].get('op') == 'reset':
        small = small[1:]
        vj['step'] -= 1
    return small, vj, note


def _hd_difference(prop, prior_flat, target):
    """Execute target after prior_flat (+reset) and alone, each in a pristine process.
    Returns (index into target, outcome after the prior runs, outcome alone) or None."""
    hist = list(prior_flat)
    if hist and hist[-1].get('op') != 'reset':
        hist.append(dict(RESET))
    start = len(hist)
    hist.extend(target)
    log_h, _ = pristine_execute(prop, hist, ('-', '-', '-'))
    log_a, _ = pristine_execute(prop, target, None)
    return _first_difference(_comparable(log_h[start:]), _comparable(log_a))


def confirm_and_minimise_hd(prop, mod, v):
    """History dependence: the run v['ops'] behaves differently after v['prior'] than alone."""
    target = list(v['ops'])

    def flat(runs):
        out = []
        for p in runs:
            out.extend(p)
            out.append(dict(RESET))
        return out

    if _hd_difference(prop, flat(v['prior']), target) is None:
        raise core.HarnessError('history dependence of run seed %d did not reproduce from the %d '
                                'earlier runs of its epoch' % (v['seed'], len(v['prior'])))
    runs = minimise.ddmin(list(v['prior']), lambda rs: _hd_difference(prop, flat(rs), target) is not None)
    steps = minimise.ddmin(flat(runs), lambda st: _hd_difference(prop, st, target) is not None)
    # drop the tail of the target that is not needed to see the difference
    d = _hd_difference(prop, steps, target)
    if d is None:
        raise core.HarnessError('minimised history of run seed %d lost the difference' % v['seed'])
    target = target[:d[0] + 1]
    d = _hd_difference(prop, steps, target)
    if d is None:
        raise core.HarnessError('truncated target of run seed %d lost the difference' % v['seed'])
    if steps and steps[-1].get('op') != 'reset':
        steps = steps + [dict(RESET)]
    ops = steps + target
    rec = target[d[0]]
    vj = {'property': prop, 'oracle': 'history_dependence', 'step': len(steps) + d[0],
          'op': rec.get('key', rec.get('op', '?')),
          'detail': {'after_earlier_calls_in_the_process': d[1], 'alone_in_a_pristine_process': d[2],
                     'target_start': len(steps)}}
    note = ('history dependence: the calls after the last reset give a different outcome when the '
            'calls before it have run in the same process; nothing is reported by any single call')
    return ops, vj, note


# --------------------------------------------------------------------------- #
# batch

def _jsonable_stats(stats):
    out = {}
    for k in sorted(stats):
        v = stats[k]
        if isinstance(v, set):
            out[k] = len(v)
        elif isinstance(v, dict):
            out[k] = _jsonable_stats(v)
        else:
            out[k] = v
    return out


def run_batch(prop, tier, batch_seed, workers, runs_per_worker, budget_s):
    mod = load(prop)
    t0 = time.monotonic()
    ctx = multiprocessing.get_context('fork')
    results = []
    with ProcessPoolExecutor(max_workers=workers, mp_context=ctx) as ex:
        futs = [ex.submit(worker, prop, batch_seed, w, runs_per_worker, budget_s)
                for w in range(workers)]
        for f in futs:
            try:
                results.append(f.result(timeout=budget_s + 300))
            except Exception as e:                                   # noqa: BLE001
                for p in list(getattr(ex, '_processes', {}).values()):
                    p.kill()
                raise core.HarnessError('worker died or timed out: %r' % (e,))
    for r in results:
        if r.get('error'):
            raise core.HarnessError('worker %s failed:\n%s' % (r['w'], r['error']))
    wall_search = time.monotonic() - t0

    stats = {}
    nontrivial = set()
    agg = {'runs': 0, 'steps': 0, 'digests': 0, 'fault_runs': 0, 'fault_free_runs': 0, 'epochs': 0}
    viols, samples, more = [], [], 0
    for r in results:
        _merge_stats(stats, r['stats'])
        nontrivial |= r['nontrivial']
        for k in agg:
            agg[k] += r[k]
        viols.extend(r['violations'])
        samples.extend(r['samples'])
        more += r.get('more_violations', 0)

    # ---- violations: group, confirm in pristine processes, minimise, match known findings
    known = load_known()
    reported, known_hit, seen_classes = [], {}, {}
    viols.sort(key=lambda v: (v['w'], v['i']))
    for v in viols:
        vj = v['violation']
        key = (vj['oracle'], vj['op'], str(vj['detail'].get('what')), str(vj['detail'].get('why')))
        seen_classes.setdefault(key, []).append(v)
    n_min = 0
    done_targets = set()
    for key in sorted(seen_classes):
        if n_min >= MAX_CLASSES_TO_MINIMISE:
            break
        v = seen_classes[key][0]
        tkey = (v['violation']['oracle'], v['violation']['op'])
        if tkey in done_targets:
            continue
        done_targets.add(tkey)
        n_min += 1
        if v.get('kind') == 'history_dependence':
            small, vj, note = confirm_and_minimise_hd(prop, mod, v)
        else:
            small, vj, note = confirm_and_minimise(prop, mod, v)
        hit = [e for e in known if finding_matches(e, prop, vj, small)]
        if hit:
            known_hit.setdefault(hit[0]['id'], hit[0])
            continue
        path = write_replay(prop, v['seed'], v['cfg'], small, vj, len(v['ops']), note)
        ok, out = fresh_process_replay(path)
        if not ok:
            raise core.HarnessError('replay file %s did not reproduce in a fresh process:\n%s'
                                    % (path, out))
        reported.append({'replay': path, 'violation': vj, 'steps': len(small),
                         'original_steps': len(v['ops']), 'run_seed': v['seed'], 'note': note})

    wall = time.monotonic() - t0
    hours = max(wall_search, 1e-9) / 3600.0
    cov = {
        'evaluations': agg['steps'],
        'runs': agg['runs'],
        'distinct_nontrivial': len(nontrivial),
        'distinct_runs': agg['digests'],
        'rule': mod.RULE,
        'samples': samples[:3],
        'run_seeds': {'derivation': 'splitmix64 chain over (VERIF_SEED, property salt %d, worker, index)'
                                    % mod.SALT,
                      'batch_seed': batch_seed, 'workers': workers,
                      'first': [r['first_seed'] for r in results][:4],
                      'last': [r['last_seed'] for r in results][:4]},
        'runs_per_hour': int(agg['runs'] / hours),
        'steps_per_hour': int(agg['steps'] / hours),
        'epochs': agg['epochs'],
        'runs_per_epoch_process': EPOCH_RUNS[prop],
        'fault_free_runs': agg['fault_free_runs'],
        'fault_injecting_runs': agg['fault_runs'],
        'simulated_time': 'not applicable: the system has no clock; progress is counted in steps',
        'components': {'real': ['spatialmath (all modules, imported from %s)' % REPO, 'numpy', 'scipy'],
                       'stubbed': [],
                       'seams': mod.SEAMS},
        'violating_runs_seen': len(viols) + more,
        'runs_re_executed_alone_in_a_pristine_process': sum(r.get('hd_checked', 0) for r in results),
        'violation_classes': [list(k) for k in sorted(seen_classes)],
        'known_findings_hit': sorted(known_hit),
        'exhaustive': False,
    }
    cov.update(mod.summarise(_jsonable_stats(stats), stats))
    ev = {
        'property_id': prop, 'tier': tier, 'seed': batch_seed, 'level': 'exploration',
        'coverage': cov,
        'assumptions': mod.ASSUMPTIONS,
        'wall_s': round(wall, 3),
        'violations': len(reported),
    }
    if not os.environ.get('VERIF_NO_EVIDENCE'):
        os.makedirs(EVIDENCE, exist_ok=True)
        with open(os.path.join(EVIDENCE, '%s.json' % prop), 'w') as f:
            json.dump(ev, f, indent=1, sort_keys=True, default=str)
    return ev, reported, list(known_hit.values())


def cmd_check(tier, prop):
    check_environment()
    batch_seed = int(os.environ.get('VERIF_SEED', '0') or 0)
    workers = int(os.environ.get('VERIF_WORKERS', '0') or 0) or min(16, os.cpu_count() or 1)
    t = TIERS[tier]
    budget = float(os.environ.get('VERIF_BUDGET_S', '0') or 0) or t['budget_s']
    runs = int(os.environ.get('VERIF_RUNS', '0') or 0) or t['runs_per_worker'][prop]
    print('simcheck %s %s: VERIF_SEED=%d workers=%d runs/worker<=%d budget=%ss' %
          (tier, prop, batch_seed, workers, runs, budget))
    sys.stdout.flush()
    # small determinism sample first: a harness that does not replay decides nothing
    bad = determinism_sample(prop, batch_seed, 16)
    if bad:
        raise core.HarnessError('determinism self-test failed for run seeds %s' % bad[:5])
    ev, reported, known_hit = run_batch(prop, tier, batch_seed, workers, runs, budget)
    c = ev['coverage']
    # an oracle or fault kind that silently stopped firing decides nothing: say so loudly
    if c['runs'] >= 2000:
        dead = [k for k in getattr(mod_of(prop), 'MUST_FIRE', []) if not c['faults_fired'].get(k)
                and not c.get('probes', {}).get(k)]
        if dead:
            raise core.HarnessError('these fault kinds / probes never fired in %d runs: %s'
                                    % (c['runs'], dead))
    print('runs=%d steps=%d distinct_nontrivial=%d wall=%.1fs runs/h=%d' %
          (c['runs'], c['evaluations'], c['distinct_nontrivial'], ev['wall_s'], c['runs_per_hour']))
    for e in known_hit:
        print('KNOWN-FINDING: property=%s %s' % (prop, e['summary']))
    for r in reported:
        print('VIOLATION property=%s replay=%s' % (prop, r['replay']))
        print('  oracle=%s op=%s minimised %d -> %d steps (%s); %s' %
              (r['violation']['oracle'], r['violation']['op'], r['original_steps'], r['steps'],
               r['note'].split(':')[0], json.dumps(r['violation']['detail'], sort_keys=True,
                                                   default=str)[:400]))
    return 1 if reported else 0


# --------------------------------------------------------------------------- #
# self-tests

def _one_digest(prop, seed):
    mod = load(prop)
    a = mod.generate_and_run(seed)
    da = core.digest({'ops': a['ops'], 'log': a['log']})
    # and replay from the op records alone, in the same process right afterwards
    log, v = execute_history(mod, a['ops'])
    db = core.digest({'ops': a['ops'], 'log': log})
    return da, db, (a['violation'].to_json() if a['violation'] else None)


def determinism_sample(prop, batch_seed, n):
    """n run seeds, each generated-and-run in two separate pristine processes; the digests
    of (op records, outcomes) must agree.  Returns the seeds that differ."""
    mod = load(prop)
    bad = []
    for i in range(n):
        seed = core.run_seed(batch_seed, mod.SALT, 999, i)
        a = in_fork(_one_digest, prop, seed)
        b = in_fork(_one_digest, prop, seed)
        if a[0] != b[0]:
            bad.append(seed)
    return bad


def _digests(prop, batch_seed, w, lo, hi):
    """Each run in its own pristine child."""
    mod = load(prop)
    out = []
    for i in range(lo, hi):
        seed = core.run_seed(batch_seed, mod.SALT, w, i)
        da, db, vj = in_fork(_one_digest, prop, seed)
        out.append(core.digest({'gen': da, 'replay': db, 'v': vj}))
    return out


def cmd_digests(prop, batch_seed, w, lo, hi):
    check_environment()
    for d in _digests(prop, batch_seed, w, lo, hi):
        print(d)
    return 0


def cmd_selftest_determinism(prop, n):
    """n run seeds: twice from this process, once via a 16-process fork pool, once from a fresh
    interpreter under another PYTHONHASHSEED; all digests (generation and replay) must agree."""
    check_environment()
    batch_seed = int(os.environ.get('VERIF_SEED', '0') or 0)
    a = _digests(prop, batch_seed, 7, 0, n)
    b = _digests(prop, batch_seed, 7, 0, n)
    ctx = multiprocessing.get_context('fork')
    chunks = [(k * n // 16, (k + 1) * n // 16) for k in range(16)]
    with ProcessPoolExecutor(max_workers=16, mp_context=ctx) as ex:
        parts = list(ex.map(_digests, [prop] * 16, [batch_seed] * 16, [7] * 16,
                            [c[0] for c in chunks], [c[1] for c in chunks]))
    c = [d for p in parts for d in p]
    env = dict(os.environ)
    env['PYTHONHASHSEED'] = '987'
    p = subprocess.run([sys.executable, '-B', SIMCHECK, 'digests', prop, str(batch_seed), '7',
                        '0', str(n)], capture_output=True, text=True, env=env, timeout=3600)
    d = [l for l in p.stdout.split('\n') if len(l) == 64]
    bad = [i for i in range(n) if not (a[i] == b[i] == c[i] and i < len(d) and d[i] == a[i])]
    print('determinism self-test %s: %d seeds, %d mismatches (pristine child x2, 16-proc pool, '
          'fresh interpreter PYTHONHASHSEED=987; generation digest and replay digest)' %
          (prop, n, len(bad)))
    if bad:
        print('mismatching indices:', bad[:20])
        if p.returncode != 0:
            print(p.stderr[-2000:])
        return 2
    return 0


def main(argv=None):
    argv = list(sys.argv[1:] if argv is None else argv)
    try:
        if not argv:
            print('usage: simcheck quick|thorough <prop> | replay <file> | '
                  'selftest-determinism <prop> [n] | selftest-mutants [ids] | digests ...')
            return 2
        cmd = argv[0]
        if cmd in ('quick', 'thorough'):
            return cmd_check(cmd, argv[1])
        if cmd == 'replay':
            check_environment()
            ok, _ = replay_file(argv[1])
            return 1 if ok else 0
        if cmd == 'selftest-determinism':
            return cmd_selftest_determinism(argv[1], int(argv[2]) if len(argv) > 2 else 400)
        if cmd == 'selftest-regress':
            # former harness false alarms: every file under regress/ must run clean
            check_environment()
            bad = 0
            d = os.path.join(ROOT, 'regress')
            for name in sorted(os.listdir(d)):
                if name.endswith('.json'):
                    ok, vj = replay_file(os.path.join(d, name), quiet=True)
                    print('%-50s %s' % (name, 'STILL-ALARMS' if vj is not None else 'clean'))
                    bad += vj is not None
            return 2 if bad else 0
        if cmd == 'selftest-mutants':
            from . import mutants
            return mutants.main(argv[1:])
        if cmd == 'digests':
            return cmd_digests(argv[1], int(argv[2]), int(argv[3]), int(argv[4]), int(argv[5]))
        print('unknown command', cmd)
        return 2
    except core.HarnessError as e:
        print('HARNESS-ERROR: %s' % e)
        return 2
    except Exception:                                                # noqa: BLE001
        print('HARNESS-ERROR: unexpected exception in the harness')
        traceback.print_exc()
        return 2
