"""
Systematic sensitivity sweep for C17 (not a registered check): every site in the package where
a defensive copy can be dropped or an out-of-place operation made in-place is mutated, one at a
time, in a scratch copy of /repo; the existing suite and then the C17 quick tier (reduced) are
run against it.  A mutant that survives both is either equivalent (no caller-visible value is
ever touched) or a reach gap of the check -- the survivors are listed for triage.

usage: python -m sim.sweep [--limit N] [--runs R] [--only SUBSTR]
"""
import json
import os
import re
import shutil
import subprocess
import sys
import tempfile

ROOT = os.path.dirname(os.path.dirname(os.path.abspath(__file__)))
SIMCHECK = os.path.join(ROOT, 'bin', 'simcheck')
FILES = ['spatialmath/base/argcheck.py', 'spatialmath/base/vectors.py', 'spatialmath/base/quaternions.py',
         'spatialmath/base/transforms2d.py', 'spatialmath/base/transforms3d.py',
         'spatialmath/base/transformsNd.py', 'spatialmath/smuserlist.py', 'spatialmath/super_pose.py',
         'spatialmath/pose2d.py', 'spatialmath/pose3d.py', 'spatialmath/quaternion.py',
         'spatialmath/twist.py', 'spatialmath/geom3d.py', 'spatialmath/spatialvector.py',
         'spatialmath/DualQuaternion.py']

RULES = [
    ('array->asarray', re.compile(r'\bnp\.array\('), 'np.asarray('),
    ('drop .copy()', re.compile(r'\.copy\(\)'), ''),
    ('flatten->ravel', re.compile(r'\.flatten\(\)'), '.ravel()'),
    ('astype no copy', re.compile(r'\.astype\(([^()]+)\)'), r'.astype(\1, copy=False)'),
    ('x = x op y -> x op= y', re.compile(r'^(\s*)([A-Za-z_]\w*) = \2 ([-+*/]) (.+)$'), r'\1\2 \3= \4'),
    ('x = -x -> in-place negate', re.compile(r'^(\s*)([A-Za-z_]\w*) = ?- ?\2\s*$'), r'\1\2 *= -1'),
    ('getvector copy dropped', re.compile(r'\b((?:base\.|argcheck\.)?)getvector\(([A-Za-z_]\w*)((?:, [^(),]+)?)\)'),
     r'(\2 if isinstance(\2, np.ndarray) and \2.ndim == 1 and \2.dtype == np.float64 else \1getvector(\2\3))'),
    ('return x op y -> in place', re.compile(r'^(\s*)return ([A-Za-z_]\w*) ([*/]) ([A-Za-z_]\w*)\s*$'),
     r'\1\2 \3= \4; return \2'),
]


def sites():
    out = []
    for f in FILES:
        path = os.path.join('/repo', f)
        if not os.path.exists(path):
            continue
        in_doc = False
        for ln, line in enumerate(open(path).read().split('\n')):
            stripped = line.strip()
            if stripped.count('"""') % 2 == 1 or stripped.count("'''") % 2 == 1:
                in_doc = not in_doc
                continue
            if in_doc or stripped.startswith('#') or stripped.startswith('>>>'):
                continue
            for name, rx, rep in RULES:
                for k, m in enumerate(rx.finditer(line)):
                    out.append((f, ln, name, k))
    return out


def apply(repo, site):
    f, ln, name, k = site
    rule = [r for r in RULES if r[0] == name][0]
    path = os.path.join(repo, f)
    lines = open(path).read().split('\n')
    line = lines[ln]
    ms = list(rule[1].finditer(line))
    if k >= len(ms):
        return None
    m = ms[k]
    new = line[:m.start()] + m.expand(rule[2]) + line[m.end():]
    if new == line:
        return None
    lines[ln] = new
    open(path, 'w').write('\n'.join(lines))
    return line.strip(), new.strip()


def run_suite(repo):
    env = dict(os.environ, PYTHONPATH=repo, MPLBACKEND='Agg')
    p = subprocess.run(['timeout', '600', sys.executable, '-B', '-m', 'pytest', '-q', '-x',
                        '-p', 'no:cacheprovider', '--timeout=120',
                        '--deselect', 'tests/base/test_transforms3d.py::Test3D::test_plot',
                        '--deselect', 'tests/test_pose2d.py::TestSE2::test_graphics',
                        '--deselect', 'tests/base/test_symbolic.py::Test_symbolic::test_constants',
                        '--deselect', 'tests/base/test_symbolic.py::Test_symbolic::test_functions'],
                       cwd=repo, env=env, capture_output=True, text=True)
    return p.returncode == 0


def run_check(repo, runs):
    env = dict(os.environ, VERIF_REPO=repo, VERIF_RUNS=str(runs), VERIF_BUDGET_S='90',
               VERIF_NO_EVIDENCE='1', VERIF_REPLAY_DIR=os.path.join(repo, '_replays'))
    p = subprocess.run([sys.executable, '-B', SIMCHECK, 'quick', 'C17'], env=env,
                       capture_output=True, text=True, timeout=1200)
    first = [l for l in p.stdout.split('\n') if l.startswith('  oracle=')]
    return p.returncode, (first[0].strip()[:160] if first else p.stdout[-300:].replace('\n', ' | '))


def pair_sites():
    """An in-place site combined with a copy-dropping site at most 40 lines above it in the same
    file (usually the same function): each alone is harmless, together they write into the
    caller's array."""
    ss = sites()
    inplace = [x for x in ss if 'in place' in x[2] or 'op=' in x[2] or 'negate' in x[2]]
    drops = [x for x in ss if x not in inplace]
    out = []
    for a in inplace:
        for d in drops:
            if d[0] == a[0] and 0 <= a[1] - d[1] <= 40:
                out.append((d, a))
    return out


def main(argv):
    if '--pairs' in argv:
        return main_pairs(argv)
    limit = int(argv[argv.index('--limit') + 1]) if '--limit' in argv else 10 ** 9
    runs = int(argv[argv.index('--runs') + 1]) if '--runs' in argv else 1200
    only = argv[argv.index('--only') + 1] if '--only' in argv else None
    out_path = argv[argv.index('--out') + 1] if '--out' in argv else os.path.join(ROOT, 'sweep_results.jsonl')
    ss = [s for s in sites() if not only or only in s[0] or only in s[2]]
    print('%d mutation sites' % len(ss))
    sys.stdout.flush()
    counts = {'import-or-suite-fails': 0, 'caught': 0, 'survived': 0, 'harness-error': 0}
    with open(out_path, 'a') as out:
        for site in ss[:limit]:
            tmp = tempfile.mkdtemp(prefix='sweep_', dir='/dev/shm')
            repo = os.path.join(tmp, 'repo')
            try:
                shutil.copytree('/repo', repo, ignore=shutil.ignore_patterns('.git', '__pycache__',
                                                                              'gh-pages', 'docs'))
                ch = apply(repo, site)
                if ch is None:
                    continue
                if not run_suite(repo):
                    verdict, info = 'import-or-suite-fails', ''
                else:
                    rc, info = run_check(repo, runs)
                    verdict = {0: 'survived', 1: 'caught'}.get(rc, 'harness-error')
                counts[verdict] += 1
                rec = {'file': site[0], 'line': site[1] + 1, 'rule': site[2], 'old': ch[0], 'new': ch[1],
                       'verdict': verdict, 'info': info}
                out.write(json.dumps(rec) + '\n')
                out.flush()
                print('%-22s %s:%d  %-24s %s' % (verdict, site[0], site[1] + 1, site[2], ch[0][:70]))
                sys.stdout.flush()
            finally:
                shutil.rmtree(tmp, ignore_errors=True)
    print(counts)
    return 0



def main_pairs(argv):
    runs = int(argv[argv.index('--runs') + 1]) if '--runs' in argv else 1200
    out_path = os.path.join(ROOT, 'sweep_pairs.jsonl')
    ps = pair_sites()
    print('%d site pairs' % len(ps))
    counts = {'import-or-suite-fails': 0, 'caught': 0, 'survived': 0, 'harness-error': 0}
    with open(out_path, 'a') as out:
        for d, a in ps:
            tmp = tempfile.mkdtemp(prefix='sweep_', dir='/dev/shm')
            repo = os.path.join(tmp, 'repo')
            try:
                shutil.copytree('/repo', repo, ignore=shutil.ignore_patterns('.git', '__pycache__',
                                                                              'gh-pages', 'docs'))
                c1 = apply(repo, d)
                c2 = apply(repo, a)
                if c1 is None or c2 is None:
                    continue
                if not run_suite(repo):
                    verdict, info = 'import-or-suite-fails', ''
                else:
                    rc, info = run_check(repo, runs)
                    verdict = {0: 'survived', 1: 'caught'}.get(rc, 'harness-error')
                counts[verdict] += 1
                out.write(json.dumps({'file': d[0], 'lines': [d[1] + 1, a[1] + 1], 'rules': [d[2], a[2]],
                                      'old': [c1[0], c2[0]], 'verdict': verdict, 'info': info}) + '\n')
                out.flush()
                print('%-22s %s:%d+%d  %s | %s' % (verdict, d[0], d[1] + 1, a[1] + 1, c1[0][:50], c2[0][:40]))
                sys.stdout.flush()
            finally:
                shutil.rmtree(tmp, ignore_errors=True)
    print(counts)
    return 0


if __name__ == '__main__':
    sys.exit(main(sys.argv[1:]))
