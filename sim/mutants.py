"""
Sensitivity self-test (not a registered check): apply realistic single-site changes to a
scratch copy of /repo, confirm the existing test suite still passes with the change, and
confirm the quick tier of the relevant check reports a VIOLATION.  DESIGN.md section 3.5.

Scratch copies live under /dev/shm and are removed as soon as each mutant is done.
"""
import json
import os
import shutil
import subprocess
import sys
import tempfile

ROOT = os.path.dirname(os.path.dirname(os.path.abspath(__file__)))
SIMCHECK = os.path.join(ROOT, 'bin', 'simcheck')

# (id, property, file, old, new, note)
MUTANTS = [
    # ------------------------------------------------------------------ C10
    ('c10_copy_shares_list', 'C10', 'spatialmath/smuserlist.py',
     "            self.data = copy.copy(arg.data)\n",
     "            self.data = arg.data\n",
     'copy constructor shares the value list with the original'),
    ('c10_empty_shared_list', 'C10', 'spatialmath/smuserlist.py',
     "        x = cls()\n        x.data = []\n        return x\n",
     "        x = cls()\n        x.data = _EMPTY\n        return x\n",
     'Empty() hands out one module-level list', ("import copy\n", "import copy\n_EMPTY = []\n")),
    ('c10_append_isinstance', 'C10', 'spatialmath/smuserlist.py',
     "        if not type(self) == type(item):\n            raise ValueError(\"can't append different type of object\")\n",
     "        if not isinstance(item, type(self)):\n            raise ValueError(\"can't append different type of object\")\n",
     'append accepts a child-class object (SE3 into SO3, UnitQuaternion into Quaternion)'),
    ('c10_setitem_no_len_guard', 'C10', 'spatialmath/smuserlist.py',
     "        if len(value) > 1:\n            raise ValueError(\"can't insert a multivalued element - must have len() == 1\")\n",
     "",
     '__setitem__ loses the single-value guard'),
    ('c10_insert_clamps_negative', 'C10', 'spatialmath/smuserlist.py',
     "        super().insert(i, item._A)\n",
     "        super().insert(max(i, 0), item._A)\n",
     'insert clamps negative positions to 0'),
    ('c10_extend_isinstance', 'C10', 'spatialmath/smuserlist.py',
     "        if not type(self) == type(iterable):\n            raise ValueError(\"can't append different type of object\")\n        super().extend(iterable.data)\n",
     "        if not isinstance(iterable, type(self)):\n            raise ValueError(\"can't append different type of object\")\n        super().extend(iterable.data)\n",
     'extend accepts a child-class object'),
    ('c10_setitem_abs_index', 'C10', 'spatialmath/smuserlist.py',
     "        self.data[i] = value.A\n",
     "        self.data[abs(i)] = value.A\n",
     'item assignment mishandles negative indices'),
    ('c10_pop_after_build', 'C10', 'spatialmath/smuserlist.py',
     "        return self.__class__(super().pop(i))\n",
     "        ret = self.__class__(self.data[i])\n        del self.data[i if i >= 0 else i + 1 if i < -1 else i]\n        return ret\n",
     'pop removes the wrong element for negative indices other than -1'),
    ('c10_slice_step_dropped_for_negative', 'C10', 'spatialmath/smuserlist.py',
     "            data = self.data[i]\n            if len(data) == 0:\n",
     "            data = self.data[i] if (i.step or 1) > 0 else self.data[i.start:i.stop][::-1]\n            if len(data) == 0:\n",
     'negative-step slices are computed as a reversed positive slice'),
    ('c10_fromlist_takes_first_of_multi', 'C10', 'spatialmath/smuserlist.py',
     "                if not all(map(lambda x: len(x) == 1, arg)):\n                    raise ValueError('elements of list must be single-valued instances')\n                self.data = [x.A for x in arg]\n",
     "                self.data = [x.data[0] for x in arg]\n",
     'construction from a list silently takes the first value of a multi-valued item'),
    ('c10_unitquaternion_append_override', 'C10', 'spatialmath/quaternion.py',
     "    @staticmethod\n    def _identity():\n        return base.eye()\n",
     "    def append(self, item):\n        self.data.append(base.unit(item.A))\n\n    @staticmethod\n    def _identity():\n        return base.eye()\n",
     'UnitQuaternion-only append override without type/length guard'),
    ('c10_reverse_returns_copy', 'C10', 'spatialmath/smuserlist.py',
     "    def pop(self, i=-1):\n",
     "    def reverse(self):\n        if len(self.data) > 2:\n            self.data = self.data[::-1]\n\n    def pop(self, i=-1):\n",
     'reverse override that is a no-op for 2 values'),
    ('c10_alloc_zero_gives_one', 'C10', 'spatialmath/smuserlist.py',
     "        x.data = [cls._identity() for i in range(n)]  # make n copies of the data\n",
     "        x.data = [cls._identity() for i in range(n or 1)]  # make n copies of the data\n",
     'Alloc(0) returns one value'),
    ('c10_iter_never_stops', 'C10', 'spatialmath/smuserlist.py',
     "        else:\n            return self.__class__(self.data[i])\n",
     "        else:\n            return self.__class__(self.data[i if i < 0 else i % max(len(self.data), 1)])\n",
     'non-negative indices wrap around, so iteration over a non-empty object never ends'),
    # ------------------------------------------------------------------ C17
    ('c17_trnorm_writes_caller', 'C17', 'spatialmath/base/transforms3d.py',
     "    if ishom(T):\n        return base.rt2tr(R, T[:3, 3])\n    else:\n        return R\n",
     "    if ishom(T):\n        if T.dtype == np.float64:\n            T[:3, :3] = R\n            return T\n        return base.rt2tr(R, T[:3, 3])\n    else:\n        return R\n",
     'trnorm normalises a float64 SE(3) argument in place'),
    ('c17_unitvec_inplace', 'C17', 'spatialmath/base/vectors.py',
     "    v = getvector(v)\n    n = norm(v)\n\n    if n > 100 * _eps:  # if greater than eps\n        return v / n\n",
     "    if not (isinstance(v, np.ndarray) and v.dtype == np.float64 and v.ndim == 1):\n        v = getvector(v)\n    n = norm(v)\n\n    if n > 100 * _eps:  # if greater than eps\n        v /= n\n        return v\n",
     'unitvec skips the copy for float64 1-D arrays and divides in place'),
    ('c17_so3_inv_multi_inplace', 'C17', 'spatialmath/pose3d.py',
     "            return SO3([x.T for x in self.A], check=False)\n",
     "            for k in range(len(self.data)):\n                self.data[k] = self.data[k].T\n            return SO3(self.data, check=False)\n",
     'SO3.inv() on a multi-valued receiver rewrites its own elements'),
    ('c17_removesmall_inplace', 'C17', 'spatialmath/base/vectors.py',
     "    return np.where(abs(v) < tol * _eps, 0, v)\n",
     "    if isinstance(v, np.ndarray) and v.dtype.kind == 'f':\n        v[abs(v) < tol * _eps] = 0\n        return v\n    return np.where(abs(v) < tol * _eps, 0, v)\n",
     'removesmall zeroes in place'),
    ('c17_rt2tr_module_buffer', 'C17', 'spatialmath/base/transformsNd.py',
     "    elif R.shape == (3, 3):\n        T = np.eye(4)\n        T[:3, :3] = R\n        T[:3, 3] = t\n",
     "    elif R.shape == (3, 3):\n        T = _T4\n        T[:3, :3] = R\n        T[:3, 3] = t\n",
     'rt2tr reuses one module-level 4x4 result buffer', ("def rt2tr(", "_T4 = np.eye(4)\n\ndef rt2tr(")),
    ('c17_truediv_inverts_right_inplace', 'C17', 'spatialmath/super_pose.py',
     "            return left.__class__(left._op2(right.inv(), lambda x, y: x @ y), check=False)\n",
     "            if len(right) > 1:\n                right.data = right.inv().data\n                return left.__class__(left._op2(right, lambda x, y: x @ y), check=False)\n            return left.__class__(left._op2(right.inv(), lambda x, y: x @ y), check=False)\n",
     'X / Y replaces the values of a multi-valued Y by their inverses'),
    ('c17_trinv_writes_caller', 'C17', 'spatialmath/base/transforms3d.py',
     "    Ti = np.zeros((4,4), dtype=T.dtype)\n    Ti[:3, :3] = R.T\n",
     "    Ti = T if T.flags['F_CONTIGUOUS'] and not T.flags['C_CONTIGUOUS'] else np.zeros((4,4), dtype=T.dtype)\n    t = t.copy()\n    Ti[:3, :3] = R.T.copy()\n",
     'trinv overwrites a Fortran-ordered argument'),
    ('c17_transl_returns_scaled_view', 'C17', 'spatialmath/base/transforms3d.py',
     "    Ti[3,3] = 1\n    return Ti\n",
     "    Ti[3,3] = 1\n    _last.append(Ti)\n    if len(_last) > 2:\n        _last.pop(0)[:3, 3] = 0\n    return Ti\n",
     'trinv keeps its last results and zeroes the translation of the one before last',
     ("def trinv(", "_last = []\n\ndef trinv(")),
    ('c17_quaternion_inner_sorts', 'C17', 'spatialmath/base/quaternions.py',
     "def qnorm(q):",
     "def qnorm(q):\n    if isinstance(q, list):\n        q[:] = [float(x) for x in q]",
     'qnorm rewrites a list argument with floats'),
    ('c17_getvector_sequence_flattens_inplace', 'C17', 'spatialmath/base/argcheck.py',
     "        if out == 'sequence':\n            return v\n",
     "        if out == 'sequence':\n            if isinstance(v, list):\n                v.reverse(); v.reverse(); v.append(v.pop())\n                v[:] = [float(x) for x in v]\n            return v\n",
     "getvector(out='sequence') converts the caller's list to floats in place"),
    ('c17_twist_counter_state', 'C17', 'spatialmath/base/transforms3d.py',
     "def delta2tr(d):",
     "_ncalls = [0]\n\ndef delta2tr(d):\n    _ncalls[0] += 1\n    if _ncalls[0] % 7 == 0:\n        d = np.asarray(d, dtype=float) * (1 + 1e-6)",
     'delta2tr result depends on a hidden call counter'),
    ('c17_se3_mul_vector_scales_arg', 'C17', 'spatialmath/base/transformsNd.py',
     "def e2h(v):",
     "def e2h(v):\n    if isinstance(v, np.ndarray) and v.ndim == 2 and v.dtype == np.float64 and v.shape[1] > 2:\n        v[:, -1] = v[:, -1] * 1.0 + 0.0\n        v[0, 0] += 0.0 if v.shape[1] < 4 else 1e-9",
     'e2h perturbs a float64 point-set argument with 4 or more columns'),
    ('c17_rotx_memoised', 'C17', 'spatialmath/base/transforms3d.py',
     "def rotx(theta, unit=\"rad\"):",
     "import functools\n\n@functools.lru_cache(maxsize=64)\ndef rotx(theta, unit=\"rad\"):",
     'rotx memoises its result array: a caller writing into one result corrupts later results'),
    ('c17_identity_cached', 'C17', 'spatialmath/pose3d.py',
     "    @staticmethod\n    def _identity():\n        return np.eye(4)\n",
     "    @staticmethod\n    def _identity():\n        return _EYE4\n",
     'SE3() hands out one shared module-level identity array',
     ("class SE3(SO3):", "_EYE4 = np.eye(4)\n\nclass SE3(SO3):")),
]


def apply(repo, m):
    path = os.path.join(repo, m[2])
    s = open(path).read()
    if m[3] not in s:
        return False
    s = s.replace(m[3], m[4], 1)
    if len(m) > 6:
        pre_old, pre_new = m[6]
        if pre_old not in s:
            return False
        s = s.replace(pre_old, pre_new, 1)
    open(path, 'w').write(s)
    return True


def run_suite(repo):
    env = dict(os.environ, PYTHONPATH=repo, MPLBACKEND='Agg')
    p = subprocess.run(['timeout', '900', sys.executable, '-B', '-m', 'pytest', '-q', '-x',
                        '-p', 'no:cacheprovider', '--timeout=300',
                        '--deselect', 'tests/base/test_transforms3d.py::Test3D::test_plot',
                        '--deselect', 'tests/test_pose2d.py::TestSE2::test_graphics',
                        '--deselect', 'tests/base/test_symbolic.py::Test_symbolic::test_constants',
                        '--deselect', 'tests/base/test_symbolic.py::Test_symbolic::test_functions'],
                       cwd=repo, env=env, capture_output=True, text=True)
    return p.returncode == 0, (p.stdout + p.stderr)[-600:]


def run_check(repo, prop, runs, budget):
    env = dict(os.environ, VERIF_REPO=repo, VERIF_RUNS=str(runs), VERIF_BUDGET_S=str(budget),
               VERIF_NO_EVIDENCE='1', VERIF_REPLAY_DIR=os.path.join(repo, '_replays'))
    p = subprocess.run([sys.executable, '-B', SIMCHECK, 'quick', prop], env=env,
                       capture_output=True, text=True, timeout=budget + 600)
    lines = [l for l in p.stdout.split('\n') if l.startswith('VIOLATION') or l.startswith('  oracle=')
             or l.startswith('HARNESS')]
    return p.returncode, lines, p.stdout[-1500:] + p.stderr[-1500:]


def main(argv):
    only = set(argv)
    results = []
    for m in MUTANTS:
        if only and m[0] not in only and m[1] not in only:
            continue
        tmp = tempfile.mkdtemp(prefix='mutant_', dir='/dev/shm')
        repo = os.path.join(tmp, 'repo')
        try:
            shutil.copytree('/repo', repo, ignore=shutil.ignore_patterns('.git', '__pycache__', 'gh-pages',
                                                                          'docs'))
            if not apply(repo, m):
                print('%-42s PATTERN-NOT-FOUND' % m[0])
                results.append((m[0], 'pattern'))
                continue
            ok, tail = run_suite(repo)
            rc, lines, out = run_check(repo, m[1], 1500 if m[1] == 'C10' else 800, 60)
            verdict = 'CAUGHT' if rc == 1 else ('MISSED' if rc == 0 else 'HARNESS-ERROR')
            print('%-42s tests=%s  %s  %s' % (m[0], 'pass' if ok else 'FAIL', verdict,
                                              lines[1].strip()[:160] if len(lines) > 1 else ''))
            if rc == 2:
                print(out)
            if not ok:
                print('   suite tail:', tail.replace('\n', ' | ')[-300:])
            results.append((m[0], verdict, ok))
            sys.stdout.flush()
        finally:
            shutil.rmtree(tmp, ignore_errors=True)
    missed = [r for r in results if r[1] != 'CAUGHT']
    print('%d mutants, %d caught, %d not caught' % (len(results), len(results) - len(missed), len(missed)))
    return 0 if not missed else 1


if __name__ == '__main__':
    sys.exit(main(sys.argv[1:]))
