"""
Shared pieces of the simulator: seed derivation, canonical JSON, digests,
violation record.  Nothing in here reads a clock or the global PRNG.
"""
import hashlib
import json
import random

MASK = (1 << 64) - 1


def splitmix64(x):
    x = (x + 0x9E3779B97F4A7C15) & MASK
    z = x
    z = ((z ^ (z >> 30)) * 0xBF58476D1CE4E5B9) & MASK
    z = ((z ^ (z >> 27)) * 0x94D049BB133111EB) & MASK
    return (z ^ (z >> 31)) & MASK


def derive(*parts):
    """Derive a 63-bit seed from a tuple of non-negative integers."""
    h = 0x243F6A8885A308D3
    for p in parts:
        h = splitmix64(h ^ (int(p) & MASK))
    return h >> 1


def run_seed(batch_seed, prop_salt, worker, index):
    return derive(batch_seed, prop_salt, worker, index)


def rng_for(seed):
    return random.Random(seed)


def canon(obj):
    return json.dumps(obj, sort_keys=True, separators=(',', ':'), allow_nan=True)


def digest(obj):
    return hashlib.sha256(canon(obj).encode()).hexdigest()


class Violation(Exception):
    """A property violation observed at one step of a run."""

    def __init__(self, prop, oracle, step, op, detail):
        super().__init__(oracle)
        self.prop = prop
        self.oracle = oracle        # short id of the oracle that fired
        self.step = step            # index into the op list
        self.op = op                # op kind of the offending step
        self.detail = detail        # JSON-able dict: expected / observed

    def klass(self):
        """What must persist for a minimised run to count as 'the same'."""
        return (self.prop, self.oracle, self.op)

    def to_json(self):
        return {'property': self.prop, 'oracle': self.oracle, 'step': self.step,
                'op': self.op, 'detail': self.detail}


class HarnessError(Exception):
    """The harness itself is broken; never reported as a violation."""


def weighted_choice(rng, items):
    """items: list of (value, weight) in fixed order."""
    total = 0.0
    for _, w in items:
        total += w
    x = rng.random() * total
    acc = 0.0
    for v, w in items:
        acc += w
        if x < acc:
            return v
    return items[-1][0]
