"""
C10 workload: histories of list operations on real spatialmath objects,
refined step by step against plain Python lists (DESIGN.md section 4).

generate  : gen_config(rng), gen_step(world, cfg, rng) -> op record (JSON-able)
execute   : World.step(rec) -> outcome (JSON-able); raises core.Violation
Replay needs only the op records: execution never draws from a PRNG.
"""
import itertools
import math
import signal

import numpy as np

from . import core

PROP = 'C10'
SALT = 10

CORE_CLASSES = ['SO2', 'SE2', 'SO3', 'SE3', 'Quaternion', 'UnitQuaternion',
                'Twist2', 'Twist3']
# the other list-capable classes (quantifier: 'in every list-capable class'; anchored overrides in
# geom3d.py and spatialvector.py).  SpatialInertia is left out: it cannot be constructed from a
# list at all, so the alphabet does not apply to it.
EXT_CLASSES = ['Plucker', 'SpatialVelocity', 'SpatialAcceleration', 'SpatialForce',
               'SpatialMomentum']
ALL_CLASSES = CORE_CLASSES + EXT_CLASSES
# X(x) is documented as 'a copy' for poses, quaternions, twists and Plucker; the spatial-vector
# constructor accepts an instance but keeps only x.A, which is a value only when x holds exactly one,
# so for those classes the copy step is issued for single-valued objects only
NO_COPY = {'SpatialVelocity', 'SpatialAcceleration', 'SpatialForce', 'SpatialMomentum'}
PAIRS = [('SO3', 'SE3'), ('SO2', 'SE2'), ('Quaternion', 'UnitQuaternion'),
         ('Twist2', 'Twist3'), ('SpatialVelocity', 'SpatialAcceleration'),
         ('SpatialForce', 'SpatialMomentum'), ('Plucker', 'Twist3')]
MAX_LEN = 400           # operations that would make an object longer are skipped
LITS = ['ndarray', 'list_of_ndarray', 'none', 'scalar', 'tuple', 'str', 'numlist']

# X([y1..yn]) with items of another class that the constructor documents as a conversion
DOCUMENTED_LIST_CONVERSIONS = {('UnitQuaternion', 'SO3'), ('UnitQuaternion', 'SE3')}

CALL_GUARD_S = 20.0


class CallTimeout(BaseException):
    """A list operation ran for CALL_GUARD_S seconds: reported as an unexpected outcome."""


def _on_alarm(signum, frame):
    raise CallTimeout()


_classes = {}


def classes():
    if not _classes:
        import spatialmath as sm
        for n in ALL_CLASSES:
            _classes[n] = getattr(sm, n)
    return _classes


# --------------------------------------------------------------------------- #
# element values: unique per tag, computed by the harness's own arithmetic

def _rot2(a):
    c, s = math.cos(a), math.sin(a)
    return np.array([[c, -s], [s, c]])


def _rot3(k):
    a, b = 0.0211 * k + 0.013, 0.0097 * k + 0.005
    ca, sa, cb, sb = math.cos(a), math.sin(a), math.cos(b), math.sin(b)
    rz = np.array([[ca, -sa, 0.0], [sa, ca, 0.0], [0.0, 0.0, 1.0]])
    rx = np.array([[1.0, 0.0, 0.0], [0.0, cb, -sb], [0.0, sb, cb]])
    return rz @ rx


def elem_value(cname, k):
    k = int(k)
    if cname == 'SO2':
        return _rot2(0.0137 * k + 0.0071)
    if cname == 'SE2':
        T = np.eye(3)
        T[:2, :2] = _rot2(0.0137 * k + 0.0071)
        T[0, 2] = k + 0.25
        T[1, 2] = -2.0 * k - 0.5
        return T
    if cname == 'SO3':
        return _rot3(k)
    if cname == 'SE3':
        T = np.eye(4)
        T[:3, :3] = _rot3(k)
        T[:3, 3] = [k + 1.0, 2.0 * k + 0.5, -3.0 * k - 0.25]
        return T
    if cname == 'Quaternion':
        return np.array([k + 0.5, -1.0 * k - 1.0, 2.0 * k + 0.25, 0.125 * k + 3.0])
    if cname == 'UnitQuaternion':
        a = 0.0173 * k + 0.011
        ax = np.array([1.0, 2.0, 3.0 + 0.01 * k])
        ax = ax / math.sqrt(float(ax @ ax))
        q = np.array([math.cos(a / 2), *(math.sin(a / 2) * ax)])
        return q / math.sqrt(float(q @ q))
    if cname == 'Twist2':
        return np.array([k + 0.5, -2.0 * k - 1.0, 0.01 * k + 0.1])
    if cname in ('Twist3', 'Plucker', 'SpatialVelocity', 'SpatialAcceleration', 'SpatialForce',
                 'SpatialMomentum'):
        return np.array([k + 0.5, -2.0 * k - 1.0, 3.0 * k + 0.25,
                         0.01 * k + 0.1, -0.02 * k - 0.2, 0.03 * k + 0.3])
    raise core.HarnessError('no element generator for ' + cname)


def special_value(cname, j):
    """Boundary members of each class: identities, half turns, zero vectors, pure translations."""
    j = int(j) % 6
    if j == 5:
        # a pose whose translation is not finite is still a pose for the list layer
        if cname in ('SE2', 'SE3'):
            n = 3 if cname == 'SE2' else 4
            T = np.eye(n)
            T[0, -1] = float('nan')
            T[1, -1] = float('inf')
            return T
        j = 1
    if j == 4:
        # a rotation that is valid only within the library's tolerance (residual about 90 eps of
        # the 100 eps allowed): it must survive being read back, which re-validates it
        d = 1.4e-14
        if cname in ('SO2', 'SE2', 'SO3', 'SE3'):
            n = {'SO2': 2, 'SE2': 3, 'SO3': 3, 'SE3': 4}[cname]
            T = np.eye(n)
            T[0, 1] = d
            if cname in ('SE2', 'SE3'):
                T[0, -1] = 0.5
            return T
        j = 2
    if j == 3:
        # components far below one ulp of 1.0 next to nothing larger: exact values, not round-off
        tiny = {'Quaternion': [1e-15, -2e-15, 0.0, 3e-15], 'Twist2': [1e-15, -2e-15, 3e-15],
                'Twist3': [1e-15, -2e-15, 0.0, 0.0, 0.0, 3e-15],
                'Plucker': [1e-15, -2e-15, 0.0, 0.0, 0.0, 3e-15],
                'SpatialVelocity': [1e-15, -2e-15, 0.0, 0.0, 0.0, 3e-15],
                'SpatialAcceleration': [1e-15, -2e-15, 0.0, 0.0, 0.0, 3e-15],
                'SpatialForce': [1e-15, -2e-15, 0.0, 0.0, 0.0, 3e-15],
                'SpatialMomentum': [1e-15, -2e-15, 0.0, 0.0, 0.0, 3e-15]}
        if cname in tiny:
            return np.array(tiny[cname])
        if cname == 'SE2':
            T = np.eye(3)
            T[:2, 2] = [1e-15, -3e-15]
            return T
        if cname == 'SE3':
            T = np.eye(4)
            T[:3, 3] = [1e-15, 0.0, -3e-15]
            return T
        j = 1
    if cname == 'SO2':
        return [np.eye(2), np.array([[-1.0, 0.0], [0.0, -1.0]]), np.array([[0.0, -1.0], [1.0, 0.0]])][j]
    if cname == 'SE2':
        T = np.eye(3)
        if j == 1:
            T[:2, 2] = [1.0, 2.0]
        if j == 2:
            T[:2, :2] = [[-1.0, 0.0], [0.0, -1.0]]
            T[:2, 2] = [0.0, 3.0]
        return T
    if cname == 'SO3':
        return [np.eye(3), np.diag([1.0, -1.0, -1.0]),
                np.array([[0.0, -1.0, 0.0], [1.0, 0.0, 0.0], [0.0, 0.0, 1.0]])][j]
    if cname == 'SE3':
        T = np.eye(4)
        if j == 1:
            T[:3, 3] = [1.0, 2.0, 3.0]
        if j == 2:
            T[:3, :3] = np.diag([1.0, -1.0, -1.0])
        return T
    if cname == 'Quaternion':
        return [np.zeros(4), np.array([1.0, 0, 0, 0]), np.array([0.0, 0, 0, 1.0])][j]
    if cname == 'UnitQuaternion':
        return [np.array([1.0, 0, 0, 0]), np.array([0.0, 1.0, 0, 0]), np.array([-1.0, 0, 0, 0])][j]
    if cname == 'Twist2':
        return [np.zeros(3), np.array([1.0, 2.0, 0.0]), np.array([0.0, 0.0, 1.0])][j]
    return [np.zeros(6), np.array([1.0, 2.0, 3.0, 0, 0, 0]), np.array([0.0, 0, 0, 0, 0, 1.0])][j]


def identity_value(cname):
    return {
        'SO2': np.eye(2), 'SE2': np.eye(3), 'SO3': np.eye(3), 'SE3': np.eye(4),
        'Quaternion': np.zeros(4), 'UnitQuaternion': np.array([1.0, 0, 0, 0]),
        'Twist2': np.zeros(3), 'Twist3': np.zeros(6), 'Plucker': np.zeros(6),
        'SpatialVelocity': np.zeros(6), 'SpatialAcceleration': np.zeros(6),
        'SpatialForce': np.zeros(6), 'SpatialMomentum': np.zeros(6),
    }[cname]


class Elem:
    """Immutable model element: tag + expected array value."""
    __slots__ = ('tag', 'value', 'raw')

    def __init__(self, tag, value):
        self.tag = tag
        self.value = np.array(value, dtype=float)
        self.value.setflags(write=False)
        self.raw = self.value.tobytes()


def value_matches(arr, elem):
    """Is arr (what the object holds) the value the model expects?"""
    if not isinstance(arr, np.ndarray):
        return False
    if arr.shape != elem.value.shape:
        return False
    if arr.dtype == np.float64 and arr.tobytes() == elem.raw:
        return True
    if arr.dtype.kind not in 'fiu':
        return False
    # tolerance relative to the magnitude of the element (UnitQuaternion re-normalises on
    # indexing, nothing else differs in a single bit today): a component of 1e-15 in an element
    # whose largest component is 3e-15 is a value, not noise
    scale = float(np.max(np.abs(elem.value))) if elem.value.size else 0.0
    return bool(np.allclose(arr, elem.value, rtol=1e-9, atol=1e-12 * scale))


def describe(arr):
    """Short JSON-able description of something found where an element should be."""
    if isinstance(arr, np.ndarray):
        flat = arr.ravel()
        return {'type': 'ndarray', 'shape': list(arr.shape), 'dtype': str(arr.dtype),
                'head': [float(v) if arr.dtype.kind in 'fiu' else str(v) for v in flat[:4]]}
    return {'type': type(arr).__name__}


class _Idx:
    """An index object that is neither int nor NumPy integer but implements __index__."""

    def __init__(self, i):
        self.i = i

    def __index__(self):
        return self.i


def _npi(i, kind):
    """An index as a NumPy integer scalar of the requested kind (or the plain int)."""
    if not kind:
        return i
    if kind == 'bool' and i in (0, 1):
        return bool(i)
    if kind == 'index_obj':
        return _Idx(i)
    if kind == 'int32':
        return np.int32(i)
    if kind == 'uint8' and 0 <= i < 256:
        return np.uint8(i)
    if kind == 'intp':
        return np.intp(i)
    return np.int64(i)


class Obj:
    __slots__ = ('cname', 'real', 'model')

    def __init__(self, cname, real, model):
        self.cname = cname
        self.real = real
        self.model = model      # list of Elem


# --------------------------------------------------------------------------- #

class World:
    """Live objects + their reference lists; executes op records one by one."""

    def __init__(self, stats=None):
        self.objs = []
        self.next_tag = 0
        self.step_no = 0
        self.cur_op = None
        self.stats = stats if stats is not None else {}
        self.last_raised = False     # previous step was a rejected operation
        self.K = classes()

    # -- helpers ------------------------------------------------------------- #
    def probe(self, name, n=1):
        self.stats[name] = self.stats.get(name, 0) + n

    def fail(self, oracle, **detail):
        raise core.Violation(PROP, oracle, self.step_no, self.cur_op, detail)

    def fresh(self, cname, n):
        out = []
        for _ in range(n):
            out.append(Elem(self.next_tag, elem_value(cname, self.next_tag)))
            self.next_tag += 1
        return out

    def ref(self, j):
        if not self.objs:
            return None
        return self.objs[int(j) % len(self.objs)]

    def literal(self, kind, cname):
        a = np.array(identity_value(cname))
        if kind == 'ndarray':
            return a
        if kind == 'list_of_ndarray':
            return [a]
        if kind == 'none':
            return None
        if kind == 'scalar':
            return 1.0
        if kind == 'tuple':
            return (a,)
        if kind == 'str':
            return 'x'
        if kind == 'numlist':
            return [float(v) for v in a.ravel()]
        raise core.HarnessError('unknown literal ' + str(kind))

    def operand(self, spec, cname):
        """-> (python value, Obj or None)"""
        if 'ref' in spec:
            o = self.ref(spec['ref'])
            return (o.real, o)
        return (self.literal(spec['lit'], cname), None)

    # -- oracles ------------------------------------------------------------- #
    def check_object(self, o, where):
        data = getattr(o.real, 'data', None)
        if type(o.real) is not self.K[o.cname]:
            self.fail('state', where=where, why='object changed class',
                      observed=type(o.real).__name__, expected=o.cname)
        if not isinstance(data, list):
            self.fail('state', where=where, why='data is not a list',
                      observed=type(data).__name__)
        try:
            n = len(o.real)
        except Exception as e:                                   # noqa: BLE001
            self.fail('state', where=where, why='len() raised', observed=type(e).__name__)
        if n != len(o.model) or len(data) != len(o.model):
            self.fail('state', where=where, why='length differs from reference list',
                      cls=o.cname, observed=n, expected=len(o.model),
                      expected_tags=[e.tag for e in o.model][:12])
        for i, (a, e) in enumerate(zip(data, o.model)):
            if not value_matches(a, e):
                self.fail('state', where=where, why='element differs from reference list',
                          cls=o.cname, index=i, expected_tag=e.tag,
                          expected_shape=list(e.value.shape), observed=describe(a))

    def check_all(self, where):
        for k, o in enumerate(self.objs):
            self.check_object(o, '%s:obj%d' % (where, k))

    def check_result(self, r, cname, elems, what):
        if type(r) is not self.K[cname]:
            self.fail('result_class', what=what, expected=cname, observed=type(r).__name__)
        o = Obj(cname, r, list(elems))
        self.check_object(o, what)
        return o

    # -- one step ------------------------------------------------------------ #
    def step(self, rec):
        op = rec['op']
        self.cur_op = op
        fn = getattr(self, 'op_' + op, None)
        if fn is None:
            raise core.HarnessError('unknown op ' + str(op))
        x0 = self.ref(rec['x']) if ('x' in rec and self.objs) else None
        before = (x0.cname, min(len(x0.model), 9)) if x0 is not None else (rec.get('cls'), -1)
        out = fn(rec)
        self.check_all('after')
        yk = 'ref' if 'ref' in rec.get('y', {}) else rec.get('y', {}).get('lit')
        self.stats.setdefault('abstract_transitions', set()).add(
            (before[0], before[1], op, yk, out.get('r')))
        for o in self.objs:
            self.stats.setdefault('abstract_states', set()).add(
                (o.cname, tuple(e.tag for e in o.model)) if len(o.model) <= 3
                else (o.cname, len(o.model), o.model[0].tag, o.model[-1].tag))
        self.probe('op_' + op + ':' + out.get('r', '?').split(':')[0])
        if x0 is not None and op in MUTATORS + ('get', 'getslice', 'iter') and out.get('r') == 'ok':
            if before[1] >= 9:       # lengths are capped at 9 in the abstract state
                m = len(x0.model)
                self.probe('p_op_on_len_ge_10')
                if m >= 17:
                    self.probe('p_op_on_len_ge_17')
                if m >= 33:
                    self.probe('p_op_on_len_ge_33')
                if m >= 129:
                    self.probe('p_op_on_len_ge_129')
        if op != 'drop':
            self.recent = (getattr(self, 'recent', ()) + (op,))[-3:]
            self.stats.setdefault('op_bigrams', set()).add(self.recent[-2:])
            self.stats.setdefault('op_trigrams', set()).add(self.recent)
        if self.last_raised and out.get('r') == 'ok' and op not in ('new', 'drop'):
            self.probe('p_rejected_then_accepted')
        self.last_raised = out.get('r', '').startswith('raise')
        out['lens'] = [len(o.model) for o in self.objs]
        self.step_no += 1
        return out

    def run_call(self, fn, expect, what):
        """Run fn(); expect is 'ok', 'raise' (any exception) or 'IndexError'.
        Returns (raised?, value or exception)."""
        signal.signal(signal.SIGALRM, _on_alarm)
        signal.setitimer(signal.ITIMER_REAL, CALL_GUARD_S, 2.0)   # repeating: a swallowed alarm fires again
        try:
            try:
                val = fn()
            finally:
                signal.setitimer(signal.ITIMER_REAL, 0)
        except (Exception, CallTimeout) as e:                    # noqa: BLE001
            if expect == 'ok':
                self.fail('unexpected_exception', what=what, observed=type(e).__name__,
                          message=str(e)[:200])
            if expect == 'IndexError' and not isinstance(e, IndexError):
                self.fail('exception_type', what=what, expected='IndexError',
                          observed=type(e).__name__)
            self.probe('f_rejected_' + ('bad_index' if expect == 'IndexError' else 'operand'))
            return True, e
        if expect != 'ok':
            self.fail('missing_exception', what=what, expected=expect)
        return False, val

    # -- constructors ---------------------------------------------------------- #
    def op_new(self, rec):
        cname, n = rec['cls'], int(rec['n'])
        elems = self.fresh(cname, n)
        if rec.get('special') is not None:
            elems = [Elem(e.tag, special_value(cname, int(rec['special']) + k))
                     for k, e in enumerate(elems)]
            self.probe('p_special_values')
        cls = self.K[cname]
        arrs = [np.array(e.value) for e in elems]
        try:
            real = cls(arrs[0]) if n == 1 else cls(arrs)
        except Exception as e:                                   # noqa: BLE001
            self.fail('unexpected_exception', what='construct from valid arrays',
                      observed=type(e).__name__, message=str(e)[:200])
        self.objs.append(self.check_result(real, cname, elems, 'new'))
        return {'r': 'ok', 'tags': [e.tag for e in elems]}

    VIA = {'SO2': ['ctor_angles'], 'SE2': [], 'SO3': ['Rx', 'Ry', 'Rz'], 'SE3': ['Rx', 'Ry', 'Rz'],
           'UnitQuaternion': [], 'Twist3': []}

    def op_new_via(self, rec):
        """A multi-valued object built by a class method from a list of angles; its elements are
        taken as found (after a shape check) and every later list operation is judged as usual."""
        cname, n, via = rec['cls'], max(1, int(rec['n'])), rec.get('via')
        if via not in self.VIA.get(cname, []):
            return {'r': 'skip'}
        cls = self.K[cname]
        angles = [0.05 * (self.next_tag + k) + 0.01 for k in range(n)]
        self.next_tag += n
        _, real = self.run_call(
            lambda: cls(angles) if via == 'ctor_angles' else getattr(cls, via)(angles),
            'ok', '%s.%s(list of angles)' % (cname, via))
        if type(real) is not cls:
            self.fail('result_class', what=via, expected=cname, observed=type(real).__name__)
        data = getattr(real, 'data', None)
        shape = identity_value(cname).shape
        if not isinstance(data, list) or len(data) != n or \
                any(not isinstance(a, np.ndarray) or a.shape != shape for a in data):
            self.fail('state', where=via, why='object built from a list of %d angles does not hold '
                      '%d arrays of shape %s' % (n, n, list(shape)), cls=cname,
                      observed=describe(data[0]) if isinstance(data, list) and data else str(type(data)))
        elems = [Elem(self.next_tag + k, np.array(a)) for k, a in enumerate(data)]
        self.next_tag += n
        self.objs.append(Obj(cname, real, elems))
        self.probe('p_object_from_class_method')
        return {'r': 'ok', 'n': n}

    def op_derive(self, rec):
        """A new object obtained from a live one by arithmetic (x.inv(), x * x, -x, Rand(N)); its
        elements are taken as found (after a shape check): what is judged is every list operation
        applied to it -- and to the object it came from -- afterwards."""
        x = self.ref(rec['x'])
        how = rec.get('how', 'inv')
        if x is None:
            return {'r': 'skip'}
        cls = self.K[x.cname]
        n = len(x.model)
        signal.signal(signal.SIGALRM, _on_alarm)
        signal.setitimer(signal.ITIMER_REAL, CALL_GUARD_S, 2.0)
        try:
            try:
                if how == 'inv' and hasattr(cls, 'inv') and n >= 1:
                    real = x.real.inv()
                elif how == 'mul_self' and x.cname in ('SO2', 'SE2', 'SO3', 'SE3', 'Quaternion',
                                                       'UnitQuaternion') and n >= 1:
                    real = x.real * x.real
                elif how == 'rand' and hasattr(cls, 'Rand') and x.cname != 'Twist3':
                    np.random.seed(int(rec.get('npseed', 0)) & 0x7FFFFFFF)
                    n = max(1, int(rec.get('n', 2)))
                    real = cls.Rand(N=n)
                else:
                    return {'r': 'skip'}
                data = getattr(real, 'data', None)
                if isinstance(data, list):
                    for a in data[:MAX_LEN]:    # arithmetic results are not validated by the library;
                        cls(a)                  # indexing re-validates: only survivors are list subjects
            finally:
                signal.setitimer(signal.ITIMER_REAL, 0)
        except (Exception, CallTimeout) as e:                    # noqa: BLE001
            return {'r': 'raise:' + type(e).__name__}       # arithmetic is not C10's business
        data = getattr(real, 'data', None)
        shape = identity_value(x.cname).shape
        if type(real) is not cls or not isinstance(data, list) or len(data) != n or \
                any(not isinstance(a, np.ndarray) or a.shape != shape for a in data):
            return {'r': 'skip'}                             # not a well-formed object: not reused
        elems = [Elem(self.next_tag + k, np.array(a, dtype=float)) for k, a in enumerate(data)]
        self.next_tag += n
        self.objs.append(Obj(x.cname, real, elems))
        self.probe('p_object_from_arithmetic')
        return {'r': 'ok', 'n': n}

    def op_empty(self, rec):
        cname = rec['cls']
        _, real = self.run_call(lambda: self.K[cname].Empty(), 'ok', 'Empty()')
        self.objs.append(self.check_result(real, cname, [], 'Empty'))
        return {'r': 'ok'}

    def op_alloc(self, rec):
        cname, n = rec['cls'], int(rec['n'])
        _, real = self.run_call(lambda: self.K[cname].Alloc(n), 'ok', 'Alloc(n)')
        ident = identity_value(cname)
        elems = [Elem(-1, ident) for _ in range(n)]
        self.objs.append(self.check_result(real, cname, elems, 'Alloc'))
        if n == 0:
            self.probe('p_alloc_zero')
        return {'r': 'ok'}

    def op_from_list(self, rec):
        cname = rec['cls']
        if not self.objs or not rec['items']:
            return {'r': 'skip'}
        items = [self.ref(j) for j in rec['items']]
        if any((cname, o.cname) in DOCUMENTED_LIST_CONVERSIONS for o in items):
            return {'r': 'skip'}            # a documented conversion, not a wrong-class fault
        wrong = [o.cname for o in items if o.cname != cname]
        multi = [len(o.model) for o in items if len(o.model) > 1]
        if any(len(o.model) == 0 for o in items):
            if not (wrong or multi):
                return {'r': 'skip'}        # only zero-valued items irregular: behaviour left open
            self.probe('p_from_list_bad_item_next_to_empty_item')
        expect = 'raise' if (wrong or multi) else 'ok'
        if wrong:
            self.probe('f_from_list_wrong_class')
        if multi:
            self.probe('f_from_list_multi_valued')
        seq = [o.real for o in items]
        if rec.get('as') == 'tuple':
            seq = tuple(seq)
        raised, real = self.run_call(lambda: self.K[cname](seq), expect, 'from_list')
        if raised:
            return {'r': 'raise:' + type(real).__name__}
        elems = [o.model[0] for o in items]
        self.objs.append(self.check_result(real, cname, elems, 'from_list'))
        self.probe('p_from_list_ok')
        return {'r': 'ok', 'tags': [e.tag for e in elems]}

    def op_copy(self, rec):
        x = self.ref(rec['x'])
        if x is None:
            return {'r': 'skip'}
        how = rec.get('how', 'ctor')
        if how == 'deepcopy':
            import copy as _copy
            _, real = self.run_call(lambda: _copy.deepcopy(x.real), 'ok', 'copy.deepcopy')
        elif how == 'pickle':
            import pickle as _pickle
            _, real = self.run_call(lambda: _pickle.loads(_pickle.dumps(x.real)), 'ok', 'pickle round trip')
        elif how == 'pycopy':
            import copy as _copy
            _, real = self.run_call(lambda: _copy.copy(x.real), 'ok', 'copy.copy')
        else:
            if x.cname in NO_COPY and len(x.model) != 1:
                return {'r': 'skip'}
            _, real = self.run_call(lambda: self.K[x.cname](x.real), 'ok', 'copy constructor')
        if how != 'ctor':
            self.probe('p_object_from_' + how)
        if real is x.real:
            self.fail('result_value', what='copy constructor returned its argument')
        self.objs.append(self.check_result(real, x.cname, x.model, 'copy'))
        return {'r': 'ok'}

    def op_drop(self, rec):
        if len(self.objs) > 1:
            del self.objs[int(rec['x']) % len(self.objs)]
            return {'r': 'ok'}
        return {'r': 'skip'}

    # -- readers --------------------------------------------------------------- #
    def op_get(self, rec):
        x = self.ref(rec['x'])
        if x is None:
            return {'r': 'skip'}
        i = int(rec['i'])
        idx = _npi(i, rec.get('npint'))
        try:
            e = x.model[i]
            expect = 'ok'
        except IndexError:
            expect = 'IndexError'
        raised, r = self.run_call(lambda: x.real[idx], expect, 'x[i]')
        if raised:
            return {'r': 'raise:' + type(r).__name__}
        o = self.check_result(r, x.cname, [e], 'x[i]')
        if i < 0:
            self.probe('p_get_negative')
        if rec.get('keep'):
            self.objs.append(o)
        return {'r': 'ok', 'tags': [e.tag]}

    def op_getslice(self, rec):
        x = self.ref(rec['x'])
        if x is None:
            return {'r': 'skip'}
        b = [rec['start'], rec['stop'], rec['step']]
        if rec.get('npbounds'):
            b = [np.int64(v) if v is not None else None for v in b]
            self.probe('p_slice_numpy_int_bounds')
        sl = slice(*b)
        elems = x.model[sl]
        _, r = self.run_call(lambda: x.real[sl], 'ok', 'x[start:stop:step]')
        o = self.check_result(r, x.cname, elems, 'x[start:stop:step]')
        n = len(x.model)
        if not elems:
            self.probe('p_slice_empty_result')
        if rec['step'] is not None and rec['step'] < 0:
            self.probe('p_slice_negative_step')
        if any(b is not None and (b > n or b < -n) for b in (rec['start'], rec['stop'])):
            self.probe('p_slice_bound_beyond_len')
        if any(b is not None and b < 0 for b in (rec['start'], rec['stop'])):
            self.probe('p_slice_negative_bound')
        key = 'slice_shapes'
        self.stats.setdefault(key, set()).add(
            (min(n, 7), rec['start'], rec['stop'], rec['step']))
        if rec.get('keep'):
            self.objs.append(o)
        return {'r': 'ok', 'tags': [e.tag for e in elems]}

    def op_iter(self, rec):
        x = self.ref(rec['x'])
        if x is None:
            return {'r': 'skip'}
        mode = rec.get('mode') or ('rev' if rec.get('rev') else 'plain')
        m = list(x.model)
        cap = len(m) + 3        # an iteration that does not stop is reported, not waited for
        if mode == 'rev':
            _, items = self.run_call(lambda: list(itertools.islice(reversed(x.real), cap)), 'ok',
                                     'reversed iteration')
            want = list(reversed(m))
            self.probe('p_reversed_iteration')
        elif mode == 'zip':
            # two iterations of the same object in lock step
            _, pairs = self.run_call(lambda: list(itertools.islice(zip(x.real, x.real), cap)), 'ok',
                                     'zip(x, x)')
            items = [p[k] for p in pairs for k in (0, 1)]
            want = [e for e in m for _ in (0, 1)]
            self.probe('p_overlapping_iterations')
        elif mode == 'nested' and len(m) <= 6:
            _, pairs = self.run_call(
                lambda: list(itertools.islice(((a, b) for a in x.real for b in x.real), cap * cap)),
                'ok', 'nested iteration')
            items = [p[k] for p in pairs for k in (0, 1)]
            want = [e for a in m for b in m for e in (a, b)]
            self.probe('p_overlapping_iterations')
        elif mode == 'interleaved' and len(m) >= 1:
            # start one iteration, run a complete second one, then finish the first
            def run():
                it = iter(x.real)
                first = next(it)
                middle = list(itertools.islice(x.real, cap))
                return [first] + middle + list(itertools.islice(it, cap))
            _, items = self.run_call(run, 'ok', 'interleaved iterations')
            want = [m[0]] + m + m[1:]
            self.probe('p_overlapping_iterations')
        elif mode == 'during' and len(m) >= 1:
            # a list operation is applied to the object while an iteration over it is under way;
            # a list iterator is index-based and sees the change
            j = max(0, min(int(rec.get('j', 1)), len(m)))
            mut = rec.get('mut', 'pop')
            e = None
            if mut in ('append', 'insert0'):
                val, expect, e = self._single_operand(rec, x) if 'y' in rec else (None, 'skip', None)
                if expect != 'ok' or len(m) >= MAX_LEN:
                    mut = 'reverse'
            m2 = list(m)
            if mut == 'append':
                m2.append(e)
            elif mut == 'insert0':
                m2.insert(0, e)
            elif mut == 'pop':
                m2.pop()
            elif mut == 'clear':
                m2.clear()
            else:
                mut = 'reverse'
                m2.reverse()

            def run():
                it = iter(x.real)
                head = [next(it) for _ in range(j)]
                if mut == 'append':
                    x.real.append(val)
                elif mut == 'insert0':
                    x.real.insert(0, val)
                elif mut == 'pop':
                    x.real.pop()
                elif mut == 'clear':
                    x.real.clear()
                else:
                    x.real.reverse()
                return head + list(itertools.islice(it, len(m2) + 3))
            _, items = self.run_call(run, 'ok', 'iteration with a list operation under way')
            x.model[:] = m2
            want = m[:j] + m2[j:]
            self.probe('p_mutation_during_iteration')
        else:
            _, items = self.run_call(lambda: list(itertools.islice(x.real, cap)), 'ok', 'iteration')
            want = m
        if len(items) != len(want):
            self.fail('result_value', what='iteration (%s)' % mode, why='number of items',
                      observed=len(items), expected=len(want))
        for it, e in zip(items, want):
            self.check_result(it, x.cname, [e], 'iteration item')
        return {'r': 'ok', 'n': len(items)}

    # -- mutators -------------------------------------------------------------- #
    def _single_operand(self, rec, x):
        """-> (python value, expectation 'ok'|'raise'|'skip', Elem or None)"""
        val, yo = self.operand(rec['y'], x.cname)
        if yo is None:
            self.probe('f_wrong_class_literal')
            return val, 'raise', None
        if yo.cname != x.cname:
            self.probe('f_wrong_class_object')
            pc = (yo.cname, x.cname)
            if pc in (('SO3', 'SE3'), ('SO2', 'SE2'), ('Quaternion', 'UnitQuaternion')):
                self.probe('p_parent_into_child')
            if pc in (('SE3', 'SO3'), ('SE2', 'SO2'), ('UnitQuaternion', 'Quaternion')):
                self.probe('p_child_into_parent')
            return val, 'raise', None
        if len(yo.model) == 0:
            return val, 'skip', None
        if len(yo.model) > 1:
            self.probe('f_multi_valued')
            return val, 'raise', None
        if yo is x:
            self.probe('p_self_operand')
        elif any(yo.real.data[0] is a for a in x.real.data):
            self.probe('p_operand_shares_element_with_receiver')
        return val, 'ok', yo.model[0]

    def op_append(self, rec):
        x = self.ref(rec['x'])
        if x is None or len(x.model) >= MAX_LEN:
            return {'r': 'skip'}
        val, expect, e = self._single_operand(rec, x)
        if expect == 'skip':
            return {'r': 'skip'}
        raised, r = self.run_call(lambda: x.real.append(val), expect, 'append')
        if raised:
            return {'r': 'raise:' + type(r).__name__}
        x.model.append(e)
        return {'r': 'ok'}

    def op_insert(self, rec):
        x = self.ref(rec['x'])
        if x is None or len(x.model) >= MAX_LEN:
            return {'r': 'skip'}
        val, expect, e = self._single_operand(rec, x)
        if expect == 'skip':
            return {'r': 'skip'}
        i = int(rec['i'])
        ii = _npi(i, rec.get('npint'))
        raised, r = self.run_call(lambda: x.real.insert(ii, val), expect, 'insert')
        if raised:
            return {'r': 'raise:' + type(r).__name__}
        if i > len(x.model) or i < -len(x.model):
            self.probe('p_insert_beyond_end')
        x.model.insert(i, e)
        return {'r': 'ok'}

    def op_setitem(self, rec):
        x = self.ref(rec['x'])
        if x is None:
            return {'r': 'skip'}
        val, expect, e = self._single_operand(rec, x)
        if expect == 'skip':
            return {'r': 'skip'}
        i = int(rec['i'])
        inrange = -len(x.model) <= i < len(x.model)
        if expect == 'ok' and not inrange:
            expect = 'IndexError'
        ii = _npi(i, rec.get('npint'))
        raised, r = self.run_call(lambda: x.real.__setitem__(ii, val), expect, 'x[i] = y')
        if raised:
            return {'r': 'raise:' + type(r).__name__}
        if i < 0:
            self.probe('p_setitem_negative')
        x.model[i] = e
        return {'r': 'ok'}

    def op_extend(self, rec):
        x = self.ref(rec['x'])
        if x is None:
            return {'r': 'skip'}
        val, yo = self.operand(rec['y'], x.cname)
        if yo is None:
            self.probe('f_wrong_class_literal')
            expect = 'raise'
        elif yo.cname != x.cname:
            self.probe('f_wrong_class_object')
            expect = 'raise'
        else:
            if len(x.model) + len(yo.model) > MAX_LEN:
                return {'r': 'skip'}
            expect = 'ok'
        raised, r = self.run_call(lambda: x.real.extend(val), expect, 'extend')
        if raised:
            return {'r': 'raise:' + type(r).__name__}
        if yo is x:
            self.probe('p_self_extend')
        self.probe('p_extend_by_len_%s' % min(len(yo.model), 2))
        x.model.extend(list(yo.model))
        return {'r': 'ok'}

    def op_pop(self, rec):
        x = self.ref(rec['x'])
        if x is None:
            return {'r': 'skip'}
        i = rec.get('i')
        m = list(x.model)
        try:
            e = m.pop() if i is None else m.pop(int(i))
            expect = 'ok'
        except IndexError:
            expect = 'IndexError'
            if not x.model:
                self.probe('p_pop_empty')
        if i is None:
            raised, r = self.run_call(lambda: x.real.pop(), expect, 'pop()')
        else:
            ii = _npi(int(i), rec.get('npint'))
            raised, r = self.run_call(lambda: x.real.pop(ii), expect, 'pop(i)')
        if raised:
            return {'r': 'raise:' + type(r).__name__}
        x.model[:] = m
        o = self.check_result(r, x.cname, [e], 'pop result')
        if rec.get('keep'):
            self.objs.append(o)
        return {'r': 'ok', 'tags': [e.tag]}

    def op_del(self, rec):
        x = self.ref(rec['x'])
        if x is None:
            return {'r': 'skip'}
        i = int(rec['i'])
        m = list(x.model)
        try:
            del m[i]
            expect = 'ok'
        except IndexError:
            expect = 'IndexError'
        ii = _npi(i, rec.get('npint'))
        raised, r = self.run_call(lambda: x.real.__delitem__(ii), expect, 'del x[i]')
        if raised:
            return {'r': 'raise:' + type(r).__name__}
        x.model[:] = m
        return {'r': 'ok'}

    def op_reverse(self, rec):
        x = self.ref(rec['x'])
        if x is None:
            return {'r': 'skip'}
        _, r = self.run_call(lambda: x.real.reverse(), 'ok', 'reverse')
        x.model.reverse()
        return {'r': 'ok'}

    def op_clear(self, rec):
        x = self.ref(rec['x'])
        if x is None:
            return {'r': 'skip'}
        _, r = self.run_call(lambda: x.real.clear(), 'ok', 'clear')
        x.model.clear()
        return {'r': 'ok'}


RULE = ('each run: a seeded swarm configuration (classes, op weights, fault rate and kinds, '
        'heap size, length), then up to 60 list operations on 1-8 live objects that share '
        'element arrays; every element value is unique (tagged). A run is non-trivial when at '
        'least one accepted state-changing operation happened and at least two objects were '
        'live; distinct = distinct SHA-256 of (op records, observed outcomes)')
SEAMS = ['public call boundaries of the list API (no repository hook)']
ASSUMPTIONS = [
    'CPython list is the reference model',
    'element comparison: exact bytes, else numpy.allclose(rtol=atol=1e-9) (UnitQuaternion '
    're-normalises on indexing); unique tagged element values differ by >= 1e-3',
    'operations the statement leaves open are not judged: slice assignment/deletion, '
    'construction from an empty list, zero-valued operands where one value is required',
    'sampling, not proof: a clean batch is evidence only for the runs listed',
]


def summarise(js, raw):
    faults = {k[2:]: v for k, v in js.items() if k.startswith('f_')}
    probes = {k[2:]: v for k, v in js.items() if k.startswith('p_')}
    opsd = {k[3:]: v for k, v in js.items() if k.startswith('op_')}
    return {
        'faults_fired': faults,
        'probes': probes,
        'probes_at_zero': sorted(k for k in PROBES if not probes.get(k)),
        'op_outcomes': opsd,
        'abstract_states': js.get('abstract_states', 0),
        'abstract_transitions': js.get('abstract_transitions', 0),
        'op_kind_bigrams': js.get('op_bigrams', 0),
        'op_kind_trigrams': js.get('op_trigrams', 0),
        'op_kinds': 16,
        'slice_shapes_exercised': js.get('slice_shapes', 0),
        'slice_shapes_in_domain': 8 * 16 * 16 * 7,
        'classes': ALL_CLASSES,
        'classes_not_judged': ['SpatialInertia (cannot be constructed from a list)'],
    }


MUST_FIRE = ['rejected_bad_index', 'rejected_operand', 'wrong_class_object', 'wrong_class_literal',
             'multi_valued', 'from_list_wrong_class', 'from_list_multi_valued', 'self_extend',
             'operand_shares_element_with_receiver', 'slice_negative_step', 'slice_empty_result']
PROBES = ['slice_empty_result', 'slice_negative_step', 'slice_bound_beyond_len',
          'slice_negative_bound', 'self_extend', 'self_operand',
          'operand_shares_element_with_receiver', 'pop_empty', 'insert_beyond_end',
          'setitem_negative', 'get_negative', 'parent_into_child', 'child_into_parent',
          'rejected_then_accepted', 'alloc_zero', 'from_list_ok', 'special_values',
          'object_from_class_method', 'object_from_arithmetic', 'object_from_deepcopy', 'object_from_pickle', 'object_from_pycopy', 'slice_numpy_int_bounds', 'reversed_iteration', 'overlapping_iterations', 'mutation_during_iteration', 'op_on_len_ge_10', 'op_on_len_ge_17', 'op_on_len_ge_33',
          'from_list_bad_item_next_to_empty_item', 'extend_by_len_0',
          'extend_by_len_1', 'extend_by_len_2']

MUTATORS = ('append', 'extend', 'insert', 'setitem', 'pop', 'del', 'reverse', 'clear')

# --------------------------------------------------------------------------- #
# generation

PROFILES = {
    'uniform': {},
    'slice': {'getslice': 6.0, 'get': 2.0},
    'mutate': {'append': 3, 'extend': 3, 'insert': 3, 'setitem': 3, 'pop': 3, 'del': 3,
               'reverse': 2, 'clear': 1},
    'alias': {'copy': 4, 'getslice': 3, 'get': 3, 'from_list': 4, 'extend': 3,
              'setitem': 3, 'append': 3},
    'construct': {'from_list': 4, 'empty': 3, 'alloc': 3, 'copy': 2, 'extend': 2, 'append': 2},
}
BASE_WEIGHTS = [('get', 2.0), ('getslice', 2.0), ('iter', 1.0), ('append', 1.5),
                ('extend', 1.5), ('insert', 1.5), ('pop', 1.5), ('del', 1.0),
                ('setitem', 1.5), ('reverse', 0.7), ('clear', 0.3), ('from_list', 1.0),
                ('empty', 0.4), ('alloc', 0.5), ('copy', 0.8), ('new', 0.6)]
FAULT_KINDS = ['wrong_class', 'multi_valued', 'bad_index']
STEP_CHOICES = [1, 2, 3, 3, 4, 4, 5, 6, 8, 8, 12, 16, 24, 40, 60, 60, 150]


def gen_config(rng, classes_pool=None):
    pool = classes_pool or ALL_CLASSES
    pairs = [p for p in PAIRS if p[0] in pool and p[1] in pool]
    if pairs and rng.random() < 0.5:
        cl = list(rng.choice(pairs))
        if rng.random() < 0.3:
            extra = rng.choice(pool)
            if extra not in cl:
                cl.append(extra)
    else:
        cl = rng.sample(pool, min(len(pool), rng.choice([1, 1, 2, 3])))
    kinds = [k for k in FAULT_KINDS if rng.random() < 0.6]
    rate = rng.choice([0.0, 0.0, 0.1, 0.25, 0.5])
    if not kinds:
        rate = 0.0
    cfg = {
        'classes': cl,
        'fault_rate': rate,
        'fault_kinds': kinds,
        'profile': rng.choice(['uniform', 'uniform', 'slice', 'mutate', 'alias', 'construct']),
        'steps': rng.choice(STEP_CHOICES),
        'heap_cap': rng.choice([3, 5, 8]),
        'init_objs': rng.choice([1, 1, 2, 3]),
        'full_domain_index': rng.random() < 0.5,
        'scale': rng.choice([1, 1, 1, 1, 1, 1, 4, 8, 40]),
        'special_rate': rng.choice([0.0, 0.0, 0.3, 1.0]),
    }
    if cfg['scale'] >= 40:          # very long lists: few objects, few steps
        cfg['steps'] = min(cfg['steps'], 8)
        cfg['heap_cap'] = 3
        cfg['init_objs'] = 1
    return cfg


def _weights(cfg):
    prof = PROFILES[cfg['profile']]
    return [(k, w * prof.get(k, 1.0)) for k, w in BASE_WEIGHTS]


def _index(rng, n, cfg, bad):
    if bad:
        cands = [n, -n - 1, n + 1, -n - 2, 7, -7]
        return rng.choice(cands)
    if cfg['full_domain_index'] and rng.random() < 0.3:
        return rng.randint(-7, 7)
    if n == 0:
        return rng.choice([0, -1, 0, 1])
    return rng.randint(-n, n - 1)


def _bound(rng, n):
    r = rng.random()
    if r < 0.02:
        return rng.choice([10 ** 18, -10 ** 18, 2 ** 31, -2 ** 31 - 1])
    if r < 0.3:
        return None
    if r < (0.8 if n <= 7 else 0.45):
        return rng.randint(-7, 7)
    return rng.randint(-n - 1, n + 1)


def _npkind(rng):
    return rng.choice(['int64', 'int32', 'uint8', 'intp', 'bool', 'index_obj']) if rng.random() < 0.15 else False


def gen_init(cfg, rng):
    recs = []
    for _ in range(cfg['init_objs']):
        c = rng.choice(cfg['classes'])
        n = rng.randint(0, 4) * cfg.get('scale', 1)
        if n == 0:
            recs.append({'op': 'empty', 'cls': c})
        elif rng.random() < 0.15:
            recs.append({'op': 'alloc', 'cls': c, 'n': n})
        else:
            recs.append(_new_rec(c, n, cfg, rng))
    return recs


def _new_rec(c, n, cfg, rng):
    rec = {'op': 'new', 'cls': c, 'n': n}
    if rng.random() < cfg.get('special_rate', 0.0):
        rec['special'] = rng.randrange(6)
    return rec


def gen_step(world, cfg, rng):
    objs = world.objs
    if not objs:
        return _new_rec(rng.choice(cfg['classes']), rng.randint(1, 3), cfg, rng)
    if len(objs) > cfg['heap_cap']:
        return {'op': 'drop', 'x': rng.randrange(len(objs))}
    op = core.weighted_choice(rng, _weights(cfg))
    fault = None
    if cfg['fault_rate'] and rng.random() < cfg['fault_rate']:
        fault = rng.choice(cfg['fault_kinds'])
    xi = rng.randrange(len(objs))
    x = objs[xi]
    n = len(x.model)

    if op == 'new' and rng.random() < 0.2:
        return {'op': 'derive', 'x': xi, 'how': rng.choice(['inv', 'mul_self', 'rand']),
                'n': rng.randint(1, 4), 'npseed': rng.randrange(1 << 30)}
    if op == 'new' and rng.random() < 0.25:
        c = rng.choice(cfg['classes'])
        vias = World.VIA.get(c, [])
        if vias:
            return {'op': 'new_via', 'cls': c, 'n': rng.randint(1, 4 * cfg.get('scale', 1)),
                    'via': rng.choice(vias)}
    if op == 'new':
        return _new_rec(rng.choice(cfg['classes']), rng.randint(1, 4 * cfg.get('scale', 1)), cfg, rng)
    if op == 'empty':
        return {'op': 'empty', 'cls': rng.choice(cfg['classes'])}
    if op == 'alloc':
        return {'op': 'alloc', 'cls': rng.choice(cfg['classes']),
                'n': rng.randint(0, 4 * cfg.get('scale', 1))}
    if op == 'copy':
        return {'op': 'copy', 'x': xi, 'how': rng.choice(['ctor', 'ctor', 'ctor', 'deepcopy', 'pickle',
                                                         'pycopy'])}
    if op == 'iter':
        rec = {'op': op, 'x': xi,
               'mode': rng.choice(['plain', 'plain', 'rev', 'zip', 'nested', 'interleaved', 'during'])}
        if rec['mode'] == 'during':
            rec['j'] = rng.randint(0, min(n, 3))
            rec['mut'] = rng.choice(['append', 'insert0', 'pop', 'reverse', 'clear', 'append'])
            c = [k for k, o in enumerate(objs) if o.cname == x.cname and len(o.model) == 1]
            if c:
                rec['y'] = {'ref': rng.choice(c)}
        return rec
    if op in ('reverse', 'clear'):
        return {'op': op, 'x': xi}
    if op == 'get':
        return {'op': 'get', 'x': xi, 'i': _index(rng, n, cfg, fault == 'bad_index'),
                'keep': rng.random() < 0.5, 'npint': _npkind(rng)}
    if op == 'getslice':
        return {'op': 'getslice', 'x': xi, 'start': _bound(rng, n), 'stop': _bound(rng, n),
                'step': rng.choice([None, None, None, 1, -1, 2, -2, 3, -3]),
                'keep': rng.random() < 0.5, 'npbounds': rng.random() < 0.08}
    if op == 'pop':
        i = None if rng.random() < 0.4 else _index(rng, n, cfg, fault == 'bad_index')
        return {'op': 'pop', 'x': xi, 'i': i, 'keep': rng.random() < 0.4,
                'npint': _npkind(rng)}
    if op == 'del':
        return {'op': 'del', 'x': xi, 'i': _index(rng, n, cfg, fault == 'bad_index'),
                'npint': _npkind(rng)}

    def pick(pred):
        c = [k for k, o in enumerate(objs) if pred(o)]
        return rng.choice(c) if c else None

    if op == 'from_list':
        cname = x.cname
        k = rng.choice([1, 2, 2, 3, 4, 5, 8, 12])
        items = []
        for _ in range(k):
            j = pick(lambda o: o.cname == cname and len(o.model) == 1)
            if j is None:
                return {'op': 'get', 'x': xi, 'i': _index(rng, n, cfg, False), 'keep': True} \
                    if n else {'op': 'new', 'cls': cname, 'n': 1}
            items.append(j)
        if fault == 'wrong_class':
            j = pick(lambda o: o.cname != cname and len(o.model) == 1)
            if j is not None:
                items[rng.randrange(len(items))] = j
        elif fault == 'multi_valued':
            j = pick(lambda o: o.cname == cname and len(o.model) > 1)
            if j is not None:
                items[rng.randrange(len(items))] = j
                # a second irregular item (lengths that compensate each other: 0 + 2, 2 + 2, ...)
                if len(items) > 1 and rng.random() < 0.5:
                    j2 = pick(lambda o: o.cname == cname and len(o.model) != 1)
                    if j2 is not None:
                        items[rng.randrange(len(items))] = j2
        rec = {'op': 'from_list', 'cls': cname, 'items': items}
        if fault == 'wrong_class' and rng.random() < 0.3:
            rec['cls'] = rng.choice(cfg['classes'])
        if rng.random() < 0.2:
            rec['as'] = 'tuple'
        return rec

    # operations with an operand y
    y = None
    if fault == 'wrong_class':
        j = pick(lambda o: o.cname != x.cname and (op == 'extend' or len(o.model) == 1))
        if j is not None and rng.random() < 0.7:
            y = {'ref': j}
        else:
            y = {'lit': rng.choice(LITS)}
    elif fault == 'multi_valued' and op != 'extend':
        j = pick(lambda o: o.cname == x.cname and len(o.model) > 1)
        if j is not None:
            y = {'ref': j}
    if y is None:
        if op == 'extend':
            j = pick(lambda o: o.cname == x.cname)
        else:
            j = pick(lambda o: o.cname == x.cname and len(o.model) == 1)
            if j is None:
                if n:
                    return {'op': 'get', 'x': xi, 'i': _index(rng, n, cfg, False), 'keep': True}
                return {'op': 'new', 'cls': x.cname, 'n': 1}
        y = {'ref': j}
    rec = {'op': op, 'x': xi, 'y': y}
    if op == 'insert':
        rec['i'] = rng.randint(-7, 7) if rng.random() < 0.3 else rng.randint(-n - 1, n + 1)
    if op == 'setitem':
        rec['i'] = _index(rng, n, cfg, fault == 'bad_index')
    if op in ('insert', 'setitem'):
        k = _npkind(rng)
        if k:
            rec['npint'] = k
    return rec


# --------------------------------------------------------------------------- #
# whole runs

def generate_and_run(seed, stats=None, classes_pool=None, cfg_override=None):
    """One simulated run.  Returns dict(seed, cfg, ops, log, violation)."""
    rng = core.rng_for(seed)
    cfg = gen_config(rng, classes_pool)
    if cfg_override:
        cfg.update(cfg_override)
    world = World(stats)
    ops, log, viol = [], [], None
    pending = gen_init(cfg, rng)
    total = cfg['steps'] + len(pending)
    try:
        while len(ops) < total:
            rec = pending.pop(0) if pending else gen_step(world, cfg, rng)
            ops.append(rec)
            out = world.step(rec)
            log.append(out)
    except core.Violation as v:
        viol = v
    return {'seed': seed, 'cfg': cfg, 'ops': ops, 'log': log, 'violation': viol,
            'world': world}


def execute(ops, stats=None):
    """Replay op records without any PRNG.  Returns (log, violation or None)."""
    world = World(stats)
    log = []
    try:
        for rec in ops:
            log.append(world.step(rec))
    except core.Violation as v:
        return log, v
    return log, None


def nontrivial(ops, log):
    """>= 1 state-changing step that was accepted and >= 2 objects ever live."""
    changed = any(r['op'] in MUTATORS and o.get('r') == 'ok' for r, o in zip(ops, log))
    many = any(len(o.get('lens', ())) >= 2 for o in log)
    return changed and many


# simplification candidates for the minimiser: smaller / simpler versions of a record
def simplify(rec):
    out = []
    if rec.get('how') not in (None, 'ctor'):
        out.append(dict(rec, how='ctor'))
    if rec.get('mode') not in (None, 'plain'):
        out.append(dict(rec, mode='plain'))
    for key in ('keep', 'npint', 'as', 'rev', 'special', 'npbounds'):
        if rec.get(key):
            r = dict(rec)
            r.pop(key)
            out.append(r)
    for key in ('start', 'stop', 'step'):
        if key in rec and rec[key] is not None:
            r = dict(rec)
            r[key] = None
            out.append(r)
            if abs(rec[key]) > 1:
                r = dict(rec)
                r[key] = 1 if rec[key] > 0 else -1
                out.append(r)
    if rec.get('i') is not None:
        rank = lambda v: 2 * abs(v) + (1 if v < 0 else 0)
        for v in (0, 1, -1):
            if rank(v) < rank(rec['i']):
                r = dict(rec)
                r['i'] = v
                out.append(r)
        if rec['op'] == 'pop':
            r = dict(rec)
            r['i'] = None
            out.append(r)
    if rec.get('n') is not None and rec['n'] > 1:
        r = dict(rec)
        r['n'] = rec['n'] - 1
        out.append(r)
        r = dict(rec)
        r['n'] = 1
        out.append(r)
    for key in ('x',):
        if rec.get(key):
            r = dict(rec)
            r[key] = 0
            out.append(r)
    if 'y' in rec:
        y = rec['y']
        if 'ref' in y and y['ref'] != 0:
            r = dict(rec)
            r['y'] = {'ref': 0}
            out.append(r)
        if 'lit' in y and y['lit'] != 'ndarray':
            r = dict(rec)
            r['y'] = {'lit': 'ndarray'}
            out.append(r)
    if 'items' in rec:
        if len(rec['items']) > 1:
            for k in range(len(rec['items'])):
                r = dict(rec)
                r['items'] = rec['items'][:k] + rec['items'][k + 1:]
                out.append(r)
        if any(rec['items']):
            r = dict(rec)
            r['items'] = [0] * len(rec['items'])
            out.append(r)
    if 'cls' in rec and rec['cls'] != ALL_CLASSES[0]:
        for c in ALL_CLASSES:
            if c == rec['cls']:
                break
            r = dict(rec)
            r['cls'] = c
            out.append(r)
    return out
