"""
Call catalogue for the C17 workload.

Callables are *discovered by reflection* at run time (spatialmath.base.__all__ and the
members of every exported class).  How to call them (which kinds of value fit which
parameter) comes from the template tables below, with a parameter-name fallback for
anything the tables do not mention, so that an API addition is exercised (and shows up
in the evidence) rather than silently ignored.
"""
import inspect

CLASS_NAMES = ['SO2', 'SE2', 'SO3', 'SE3', 'Quaternion', 'UnitQuaternion', 'Twist2', 'Twist3',
               'Plucker', 'Plane', 'SpatialVelocity', 'SpatialAcceleration', 'SpatialForce',
               'SpatialMomentum', 'SpatialInertia', 'DualQuaternion', 'UnitDualQuaternion']

# not judged: plotting / animation (matplotlib), and helpers that take callables
# animation entry points block on a display loop (the repository's own two animation tests hang in
# this sandbox); the static plotting functions run under the Agg backend and are exercised with
# block=False, every figure being closed after the call
EXCLUDE_BASE = {'tranimate', 'tranimate2', 'Animate', 'Animate2'}
EXCLUDE_MEMBERS = {'animate', 'arghandler', 'binop', 'unop', 'sort', 'remove',
                   'about', 'isvalid_', 'mro', 'register'}
KEYWORD_ONLY = {'file', 'block'}
# documented list-mutation methods: their receiver is exempt from the frame condition
MUTATORS = {'append', 'extend', 'insert', 'pop', 'clear', 'reverse', '__setitem__', '__delitem__'}
RANDOM = {'Rand', 'rand'}

ANYVEC = 'v2|v3|v4|v6'
ANYMAT = 'R2|T2|R3|T3|m33|so3|se3'

# name: templates separated by ' / '; params 'p=k1|k2'; leading '?' = optional (by keyword)
BASE_TEMPLATES = {
    'assertmatrix': 'm=ANYMAT, ?shape=shape',
    'ismatrix': 'm=ANYMAT|ANYVEC, shape=shape',
    'getvector': 'v=ANYVEC|sc, ?dim=dim, ?out=out, ?dtype=dtype',
    'assertvector': 'v=ANYVEC, dim=dim, ?msg=str',
    'isvector': 'v=ANYVEC|ANYMAT|sc, ?dim=dim',
    'isscalar': 'x=sc|ANYVEC|ang',
    'getunit': 'v=ang|ANYVEC, ?unit=unit',
    'isnumberlist': 'x=ANYVEC|sc',
    'isvectorlist': 'x=L:v3|L:v2|ANYVEC, n=dim',
    'pure': 'v=v3|uv3|sv3',
    'qnorm': 'q=v4|q',
    'unit': 'q=v4|q, ?tol=tol',
    'isunit': 'q=q|v4, ?tol=tol',
    'isequal': 'q1=q|v4, q2=q|v4, ?tol=tol, ?unitq=bool',
    'q2v': 'q=q',
    'v2q': 'v=sv3',
    'qqmul': 'q1=q|v4, q2=q|v4',
    'inner': 'q1=q|v4, q2=q|v4',
    'qvmul': 'q=q, v=v3|uv3',
    'vvmul': 'qa=v3|sv3, qb=v3|sv3',
    'qpow': 'q=q|v4, power=int',
    'conj': 'q=q|v4',
    'q2r': 'q=q|v4',
    'r2q': 'R=R3, ?check=bool, ?tol=tol',
    'slerp': 'q0=q, q1=q, s=s01, ?shortest=bool',
    'rand': '',
    'matrix': 'q=q|v4',
    'dot': 'q=q|v4, w=v3',
    'dotb': 'q=q|v4, w=v3',
    'angle': 'q1=q, q2=q',
    'qprint': 'q=q|v4, file=stream|stream|none, ?fmt=fmt',
    'trplot': 'T=T3|R3, block=false, ?dims=dims, ?color=color, ?frame=str, ?length=sc, ?arrow=bool',
    'trplot2': 'T=T2|R2, block=false, ?dims=dims, ?color=color, ?frame=str, ?length=sc, ?arrow=bool',
    'plotvol2': 'dim=dims|sc',
    'plotvol3': 'dim=dims|sc',
    'rot2': 'theta=ang, ?unit=unit',
    'trot2': 'theta=ang, ?unit=unit, ?t=v2',
    'transl2': 'x=sc, y=sc / x=v2|T2',
    'ishom2': 'T=T2|R2|T3|m33, ?check=bool',
    'isrot2': 'R=R2|T2|m33, ?check=bool',
    'trlog2': 'T=T2|R2, ?check=bool, ?twist=bool',
    'trexp2': 'S=so2|se2|v3|sc, ?theta=ang, ?check=bool',
    'trinterp2': 'start=T2, end=T2, s=s01 / start=R2, end=R2, s=s01 / start=none, end=T2|R2, s=s01',
    'trprint2': 'T=T2|R2, ?label=str, ?unit=unit, ?fmt=fmt, file=stream|stream|none',
    'xyt2tr': 'xyt=v3, ?unit=unit',
    'tr2xyt': 'T=T2, ?unit=unit',
    'trinv2': 'T=T2',
    'rotx': 'theta=ang, ?unit=unit',
    'roty': 'theta=ang, ?unit=unit',
    'rotz': 'theta=ang, ?unit=unit',
    'trotx': 'theta=ang, ?unit=unit, ?t=v3',
    'troty': 'theta=ang, ?unit=unit, ?t=v3',
    'trotz': 'theta=ang, ?unit=unit, ?t=v3',
    'transl': 'x=sc, y=sc, z=sc / x=v3|T3',
    'ishom': 'T=T3|R3|T2|m33, ?check=bool, ?tol=tol',
    'isrot': 'R=R3|T3|m33|R2, ?check=bool, ?tol=tol',
    'rpy2r': 'roll=ang, pitch=ang, yaw=ang, ?unit=unit, ?order=order / roll=v3|sv3, ?unit=unit, ?order=order',
    'rpy2tr': 'roll=ang, pitch=ang, yaw=ang, ?unit=unit, ?order=order / roll=v3|sv3, ?unit=unit, ?order=order',
    'eul2r': 'phi=ang, theta=ang, psi=ang, ?unit=unit / phi=v3|sv3, ?unit=unit',
    'eul2tr': 'phi=ang, theta=ang, psi=ang, ?unit=unit / phi=v3|sv3, ?unit=unit',
    'angvec2r': 'theta=ang, v=v3|uv3, ?unit=unit',
    'angvec2tr': 'theta=ang, v=v3|uv3, ?unit=unit',
    'oa2r': 'o=v3|uv3, a=v3|uv3',
    'oa2tr': 'o=v3|uv3, a=v3|uv3',
    'tr2angvec': 'T=R3|T3, ?unit=unit, ?check=bool',
    'tr2eul': 'T=R3|T3, ?unit=unit, ?flip=bool, ?check=bool',
    'tr2rpy': 'T=R3|T3, ?unit=unit, ?order=order, ?check=bool',
    'trlog': 'T=R3|T3, ?check=bool, ?twist=bool',
    'trexp': 'S=so3|se3|v3|sv3|v6, ?theta=ang, ?check=bool',
    'trnorm': 'T=T3|R3',
    'trinterp': 'start=T3, end=T3, s=s01 / start=R3, end=R3, s=s01 / start=none, end=T3|R3, s=s01',
    'delta2tr': 'd=v6',
    'trinv': 'T=T3',
    'tr2delta': 'T0=T3, ?T1=T3',
    'tr2jac': 'T=T3, ?samebody=bool',
    'trprint': 'T=T3|R3, ?orient=orient, ?unit=unit, ?label=str, ?fmt=fmt, ?degsym=bool, file=stream|stream|none',
    't2r': 'T=T3|T2, ?check=bool',
    'r2t': 'R=R3|R2, ?check=bool',
    'tr2rt': 'T=T3|T2, ?check=bool',
    'rt2tr': 'R=R3, t=v3, ?check=bool / R=R2, t=v2, ?check=bool',
    'Ab2M': 'A=m33|R3, b=v3',
    'isR': 'R=R3|R2|m33, ?tol=tol',
    'isskew': 'S=so3|so2|m33, ?tol=tol',
    'isskewa': 'S=se3|se2|m33, ?tol=tol',
    'iseye': 'S=R3|m33|T3, ?tol=tol',
    'skew': 'v=v3|sc|sv3',
    'vex': 's=so3|so2, ?check=bool',
    'skewa': 'v=v3|v6',
    'vexa': 'Omega=se3|se2, ?check=bool',
    'h2e': 'v=hp3|hp2|v4|v3',
    'e2h': 'v=p3|p2|v3|v2',
    'homtrans': 'T=T3, p=p3|v3 / T=T2, p=p2|v2',
    'rodrigues': 'w=v3|sv3, ?theta=ang',
    'colvec': 'v=ANYVEC',
    'unitvec': 'v=ANYVEC',
    'norm': 'v=ANYVEC',
    'normsq': 'v=ANYVEC',
    'isunitvec': 'v=ANYVEC|uv3, ?tol=tol',
    'iszerovec': 'v=ANYVEC, ?tol=tol',
    'isunittwist': 'v=v6, ?tol=tol',
    'isunittwist2': 'v=v3, ?tol=tol',
    'unittwist': 'S=v6, ?tol=tol',
    'unittwist_norm': 'S=v6, ?tol=tol',
    'unittwist2': 'S=v3',
    'angdiff': 'a=ang, b=ang / a=ANYVEC / a=v3, b=v3',
    'removesmall': 'v=ANYVEC|ANYMAT, ?tol=tol',
    'cross': 'u=v3, v=v3',
    'iszero': 'v=sc, ?tol=tol',
}

# constructors: class -> templates
CTOR_TEMPLATES = {
    'SO2': 'arg=R2|L:R2|ang|v3|SAME|LO:SO2, ?unit=unit, ?check=bool / ',
    'SE2': 'x=T2|L:T2|ang|v2|v3|SAME|LO:SE2, ?unit=unit, ?check=bool / x=sc, y=sc / x=sc, y=sc, theta=ang, ?unit=unit / ',
    'SO3': 'arg=R3|L:R3|SAME|LO:SO3, ?check=bool / ',
    'SE3': 'x=T3|L:T3|v3|tN|SAME|LO:SE3, ?check=bool / x=sc, y=sc, z=sc / ',
    'Quaternion': 's=v4|L:v4|SAME|LO:Quaternion, ?check=bool / s=sc, v=v3 / ',
    # unit quaternions double-cover rotations: values of both signs matter, so 4-vectors dominate
    'UnitQuaternion': 's=q|q|q|q|L:q|L:q|R3|T3|qN|obj:SO3|obj:SE3|SAME|LO:UnitQuaternion|LO:SO3, ?norm=bool / s=sc, v=v3|sv3 / ',
    'Twist2': 'arg=v3|L:v3|se2|SAME|obj:SE2|LO:Twist2, ?check=bool / arg=v2, w=sc / ',
    'Twist3': 'arg=v6|L:v6|se3|SAME|obj:SE3|LO:Twist3, ?check=bool / arg=v3, w=v3|uv3 / ',
    'Plucker': 'v=v6|L:v6|SAME|LO:Plucker / v=v3, w=v3|uv3',
    'Plane': 'c=v4',
    'SpatialVelocity': 'value=v6|L:v6|SAME / ',
    'SpatialAcceleration': 'value=v6|L:v6|SAME / ',
    'SpatialForce': 'value=v6|L:v6|SAME / ',
    'SpatialMomentum': 'value=v6|L:v6|SAME / ',
    'SpatialInertia': 'm=sc, r=v3 / m=sc, r=v3, I=m33 / m=m66 / ',
    'DualQuaternion': 'real=obj:Quaternion|obj:UnitQuaternion, dual=obj:Quaternion|obj:UnitQuaternion / real=v4, dual=v4',
    'UnitDualQuaternion': 'real=obj:SE3 / real=obj:UnitQuaternion, dual=obj:Quaternion',
}

# members by name; 'Class.name' overrides 'name'
MEMBER_TEMPLATES = {
    'Alloc': 'n=posint / ',
    'Empty': '',
    'SO2.Exp': 'S=so2|sc|L:so2, ?check=bool',
    'SE2.Exp': 'S=se2|v3|L:se2, ?check=bool',
    'SO3.Exp': 'S=so3|v3|sv3|L:so3, ?check=bool, ?so3=bool',
    'SE3.Exp': 'S=se3|v6|L:se3, ?check=bool',
    'Rand': '?N=posint',
    'SO2.Rand': '?N=posint, ?arange=v2, ?unit=unit',
    'SE2.Rand': '?N=posint, ?xrange=v2, ?yrange=v2, ?arange=v2, ?unit=unit',
    'SE3.Rand': '?N=posint, ?xrange=v2, ?yrange=v2, ?zrange=v2',
    'Twist3.Rand': '?N=posint, ?xrange=v2, ?yrange=v2, ?zrange=v2',
    'AngVec': 'theta=ang, v=v3|uv3, ?unit=unit',
    'Eul': 'angles=v3|sv3|tN, ?unit=unit',
    'EulerVec': 'w=v3|sv3',
    'OA': 'o=v3|uv3, a=v3|uv3',
    'RPY': 'angles=v3|sv3|tN, ?order=order, ?unit=unit',
    'Rx': 'theta=ang|v3, ?unit=unit', 'Ry': 'theta=ang|v3, ?unit=unit', 'Rz': 'theta=ang|v3, ?unit=unit',
    'SE3.Rx': 'theta=ang|v3, ?unit=unit, ?t=v3', 'SE3.Ry': 'theta=ang|v3, ?unit=unit, ?t=v3',
    'SE3.Rz': 'theta=ang|v3, ?unit=unit, ?t=v3',
    'UnitQuaternion.Rx': 'angle=ang, ?unit=unit', 'UnitQuaternion.Ry': 'angle=ang, ?unit=unit',
    'UnitQuaternion.Rz': 'angle=ang, ?unit=unit',
    'Tx': 'x=sc|v3', 'Ty': 'y=sc|v3', 'Tz': 'z=sc|v3',
    'Delta': 'd=v6',
    'SE3.SO3': 'R=obj:SO3|R3, ?check=bool',
    'Pure': 'v=v3|sv3',
    'DualQuaternion.Pure': 'x=v3', 'UnitDualQuaternion.Pure': 'x=v3',
    'Vec3': 'vec=sv3',
    'Twist3.Rx': 'theta=ang|v3, ?unit=unit', 'Twist3.Ry': 'theta=ang|v3, ?unit=unit, ?t=v3',
    'Twist3.Rz': 'theta=ang|v3, ?unit=unit, ?t=v3',
    'Twist3.Prismatic': 'a=v3|uv3', 'Twist2.Prismatic': 'a=v2',
    'Twist3.Revolute': 'a=v3|uv3, q=v3, ?p=sc', 'Twist2.Revolute': 'q=v2',
    'PQ': 'P=v3, Q=v3', 'Planes': 'pi1=obj:Plane|v4, pi2=obj:Plane|v4',
    'PointDir': 'point=v3, dir=v3|uv3',
    'P3': 'p=m33', 'PN': 'p=v3, n=v3|uv3',
    'interp': 's=s01|tN01, ?start=SAME1',
    'UnitQuaternion.interp': 's=s01, ?dest=SAME1, ?shortest=bool',
    'log': '?twist=bool', 'Quaternion.log': '', 'UnitQuaternion.log': '',
    'theta': '?unit=unit', 'Twist3.theta': '',
    'angvec': '?unit=unit', 'eul': '?unit=unit, ?flip=bool', 'UnitQuaternion.eul': '?unit=unit',
    'rpy': '?unit=unit, ?order=order',
    'SE2.SE3': '?z=sc',
    'delta': 'X2=SAME1',
    'inner': 'other=SAME1|SAME', 'angle': 'other=SAME1|SAME',
    'dot': 'omega=v3', 'dotb': 'omega=v3',
    'SpatialForce.dot': 'value=obj:SpatialVelocity|v6', 'SpatialMomentum.dot': 'value=obj:SpatialVelocity|v6',
    'qvmul': 'qv1=sv3, qv2=sv3',
    'exp': '?theta=ang|v3, ?units=unit', 'Quaternion.exp': '', 'UnitQuaternion.exp': '',
    'closest': 'x=v3', 'commonperp': 'l2=SAME1', 'contains': 'x=v3|p3, ?tol=tolf',
    'Plane.contains': 'p=v3, ?tol=tolf',
    'distance': 'l2=SAME1', 'intersect_plane': 'plane=obj:Plane|v4', 'intersect_volume': 'bounds=v6',
    'intersects': 'l2=SAME1', 'isparallel': 'l2=SAME1, ?tol=tolf', 'point': 'lam=sc|v3',
    'cross': 'other=obj:SpatialVelocity|obj:SpatialAcceleration|obj:SpatialForce|obj:SpatialMomentum',
    'SO2.isvalid': 'x=R2|m33|T2, ?check=bool', 'SE2.isvalid': 'x=T2|R2|m33, ?check=bool',
    'SO3.isvalid': 'x=R3|m33|T3, ?check=bool', 'SE3.isvalid': 'x=T3|R3|m33, ?check=bool',
    'Quaternion.isvalid': 'x=v4|q|v3', 'UnitQuaternion.isvalid': 'x=q|v4, ?check=bool',
    'Twist2.isvalid': 'v=v3|se2|m33, ?check=bool', 'Twist3.isvalid': 'v=v6|se3|T3, ?check=bool',
    'Plucker.isvalid': 'x=v6|v3, ?check=bool',
    'isvalid': 'x=v6|m66, check=bool',
    'plot': 'block=false, ?dims=dims, ?color=color, ?frame=str',
    'Plucker.plot': '',
    'printline': 'file=stream|stream|none, ?unit=unit, ?fmt=fmt, ?label=str, ?orient=orient',
    'count': 'item=SAME1', 'index': 'item=SAME1', '__contains__': 'item=SAME1',
    '__getitem__': 'i=idx|slice',
    # documented list mutators
    'append': 'item=SAME1|SAME|WRONG', 'Plucker.append': 'x=SAME1|SAME|WRONG',
    'extend': 'iterable=SAME|WRONG', 'insert': 'i=idx, item=SAME1|SAME|WRONG',
    'pop': '?i=idx', 'clear': '', 'reverse': '',
    '__setitem__': 'i=idx, value=SAME1|SAME|WRONG', '__delitem__': 'i=idx',
}

# fallback by parameter name for anything not in the tables
PARAM_FALLBACK = {
    'T': 'T3|T2|R3', 'R': 'R3|R2', 'T0': 'T3', 'T1': 'T3', 'S': 'se3|so3|v6|v3', 'theta': 'ang',
    'angle': 'ang', 'unit': 'unit', 'units': 'unit', 'check': 'bool', 'tol': 'tol', 'v': ANYVEC,
    'w': 'v3', 'q': 'q|v4', 'q1': 'q', 'q2': 'q', 'q0': 'q', 's': 's01', 'n': 'posint', 'N': 'posint',
    'order': 'order', 'other': 'SAME', 'right': 'SAME', 'left': 'SAME', 'l2': 'SAME1', 'x': 'sc|v3',
    'y': 'sc', 'z': 'sc', 'p': 'v3|p3', 'd': 'v6', 't': 'v3', 'm': ANYMAT, 'a': 'v3', 'b': 'v3',
    'o': 'v3', 'u': 'v3', 'file': 'stream', 'i': 'idx', 'item': 'SAME1', 'value': 'SAME1|v6',
    'twist': 'bool', 'flip': 'bool', 'start': 'SAME1', 'end': 'SAME1', 'dest': 'SAME1',
}
DEFAULT_KINDS = 'sc|v3|v6|T3|R3|q|SAME'

# binary operators: right-operand kinds per class family
POSE3 = 'SAME|SAME|obj:SO3|obj:SE3|sc|int|v3|p3|uv3|obj:Plucker|obj:Twist3|obj:UnitQuaternion|m33|T3|v4|hp3|ANYOBJ'
POSE2 = 'SAME|SAME|obj:SO2|obj:SE2|sc|int|v2|p2|m33|T2|v3|obj:Twist2|ANYOBJ'
OPERATORS = {
    # class: {opname: right kinds}
    'SO2': {'mul': POSE2, 'truediv': 'SAME|SAME|sc|obj:SE2', 'add': 'SAME|sc|R2', 'sub': 'SAME|sc|R2',
            'pow': 'int', 'eq': 'SAME', 'ne': 'SAME'},
    'SE2': {'mul': POSE2, 'truediv': 'SAME|SAME|sc|obj:SO2', 'add': 'SAME|sc|T2', 'sub': 'SAME|sc|T2',
            'pow': 'int', 'eq': 'SAME', 'ne': 'SAME'},
    'SO3': {'mul': POSE3, 'truediv': 'SAME|SAME|sc|obj:SE3', 'add': 'SAME|sc|R3', 'sub': 'SAME|sc|R3',
            'pow': 'int', 'eq': 'SAME', 'ne': 'SAME'},
    'SE3': {'mul': POSE3, 'truediv': 'SAME|SAME|sc|obj:SO3', 'add': 'SAME|sc|T3', 'sub': 'SAME|sc|T3',
            'pow': 'int', 'eq': 'SAME', 'ne': 'SAME'},
    'Quaternion': {'mul': 'SAME|SAME|sc|int|obj:UnitQuaternion', 'truediv': 'SAME|sc|obj:UnitQuaternion',
                   'add': 'SAME|sc|obj:UnitQuaternion', 'sub': 'SAME|sc|obj:UnitQuaternion',
                   'pow': 'int', 'eq': 'SAME', 'ne': 'SAME', 'neg': ''},
    'UnitQuaternion': {'mul': 'SAME|SAME|sc|v3|p3|uv3|obj:Quaternion|obj:SO3|obj:SE3|ANYOBJ', 'truediv': 'SAME|SAME|sc',
                       'add': 'SAME|sc|obj:Quaternion', 'sub': 'SAME|sc|obj:Quaternion',
                       'pow': 'int', 'eq': 'SAME', 'ne': 'SAME', 'neg': ''},
    'Twist2': {'mul': 'SAME|SAME|sc|int|obj:SE2|ANYOBJ', 'add': 'SAME|sc', 'eq': 'SAME', 'ne': 'SAME'},
    'Twist3': {'mul': 'SAME|SAME|sc|int|obj:SE3|obj:SO3|ANYOBJ', 'add': 'SAME|sc', 'eq': 'SAME', 'ne': 'SAME'},
    'Plucker': {'mul': 'SAME|obj:SE3|sc', 'xor': 'SAME|SAME1', 'or': 'SAME|SAME1', 'eq': 'SAME',
                'ne': 'SAME', 'add': 'SAME'},
    'SpatialVelocity': {'add': 'SAME|obj:SpatialAcceleration', 'sub': 'SAME', 'mul': 'sc|int',
                        'neg': '', 'matmul': 'obj:SpatialForce|obj:SpatialMomentum|SAME', 'eq': 'SAME'},
    'SpatialAcceleration': {'add': 'SAME|obj:SpatialVelocity', 'sub': 'SAME', 'mul': 'sc|int', 'neg': '',
                            'eq': 'SAME'},
    'SpatialForce': {'add': 'SAME|obj:SpatialMomentum', 'sub': 'SAME', 'mul': 'sc|int', 'neg': '', 'eq': 'SAME'},
    'SpatialMomentum': {'add': 'SAME|obj:SpatialForce', 'sub': 'SAME', 'mul': 'sc|int', 'neg': '', 'eq': 'SAME'},
    'SpatialInertia': {'add': 'SAME', 'mul': 'obj:SpatialAcceleration|obj:SpatialVelocity|SAME|sc',
                       'eq': 'SAME'},
    'DualQuaternion': {'add': 'SAME|obj:UnitDualQuaternion', 'sub': 'SAME|obj:UnitDualQuaternion',
                       'mul': 'SAME|obj:UnitDualQuaternion'},
    'UnitDualQuaternion': {'add': 'SAME|obj:DualQuaternion', 'sub': 'SAME|obj:DualQuaternion',
                           'mul': 'SAME|obj:DualQuaternion'},
}
AUGMENTED = {'mul': 'imul', 'truediv': 'itruediv', 'add': 'iadd', 'sub': 'isub', 'pow': 'ipow'}
# left-operand kinds for reflected dispatch (scalar * X, array * X, SE3 * Plucker, ...)
REFLECTED_LEFT = 'sc|int|v3|T3|obj:SE3|obj:SO3|m33|R3|ANYOBJ|obj:SE2|obj:UnitQuaternion'


def expand(kinds):
    return kinds.replace('ANYVEC', ANYVEC).replace('ANYMAT', ANYMAT)


def parse_templates(text):
    """'a=k1|k2, ?b=k3 / c=k4' -> [[(name, optional, [kinds])...], ...]"""
    out = []
    for t in text.split(' / '):
        t = t.strip()
        params = []
        if t:
            for part in t.split(','):
                part = part.strip()
                if not part:
                    continue
                name, kinds = part.split('=')
                opt = name.startswith('?')
                params.append((name.lstrip('?').strip(), opt,
                               [k for k in expand(kinds.strip()).split('|') if k]))
        out.append(params)
    return out


def fallback_template(fn):
    """Template from the signature + parameter-name table."""
    try:
        sig = inspect.signature(fn)
    except (TypeError, ValueError):
        return [[]]
    params = []
    for p in sig.parameters.values():
        if p.name in ('self', 'cls', 'left') and not params:
            continue
        if p.kind in (p.VAR_POSITIONAL, p.VAR_KEYWORD):
            continue
        kinds = expand(PARAM_FALLBACK.get(p.name, DEFAULT_KINDS)).split('|')
        params.append((p.name, p.default is not p.empty, kinds))
    return [params]


class Entry:
    __slots__ = ('key', 'target', 'name', 'how', 'templates', 'from_table')

    def __init__(self, target, name, how, templates, from_table):
        self.key = '%s.%s' % (target, name) if how != 'op' and how != 'iop' else '%s.op_%s' % (target, name)
        self.target = target
        self.name = name
        self.how = how          # func ctor cmeth smeth meth prop mut op iop
        self.templates = templates
        self.from_table = from_table


def build():
    """Reflect over the installed package.  Returns (entries, by_key, classes dict)."""
    import spatialmath as sm
    import spatialmath.base as base
    import spatialmath.DualQuaternion as dqmod
    classes = {}
    for n in CLASS_NAMES:
        c = getattr(sm, n, None) or getattr(dqmod, n, None)
        if c is not None:
            classes[n] = c
    entries = []
    for name in base.__all__:
        if name in EXCLUDE_BASE:
            continue
        fn = getattr(base, name, None)
        if not callable(fn):
            continue
        if name in BASE_TEMPLATES:
            entries.append(Entry('base', name, 'func', parse_templates(BASE_TEMPLATES[name]), True))
        else:
            entries.append(Entry('base', name, 'func', fallback_template(fn), False))
    for cname, cls in classes.items():
        entries.append(Entry(cname, '__init__', 'ctor', parse_templates(CTOR_TEMPLATES.get(cname, '')),
                             cname in CTOR_TEMPLATES))
        for m in sorted(dir(cls)):
            if m in EXCLUDE_MEMBERS:
                continue
            dunder = m.startswith('__') and m.endswith('__')
            if m.startswith('_') and not dunder:
                continue
            if dunder and m not in ('__getitem__', '__setitem__', '__delitem__', '__contains__',
                                    '__len__', '__iter__', '__reversed__', '__repr__', '__str__',
                                    '__copy__'):
                continue
            try:
                static = inspect.getattr_static(cls, m)
            except AttributeError:
                continue
            if isinstance(static, property):
                how = 'prop'
            elif isinstance(static, classmethod):
                how = 'cmeth'
            elif isinstance(static, staticmethod):
                how = 'smeth'
            elif inspect.isfunction(static):
                how = 'meth'
            else:
                continue
            if m in MUTATORS:
                how = 'mut'
            tkey = '%s.%s' % (cname, m)
            if tkey in MEMBER_TEMPLATES:
                t, ft = parse_templates(MEMBER_TEMPLATES[tkey]), True
            elif m in MEMBER_TEMPLATES:
                t, ft = parse_templates(MEMBER_TEMPLATES[m]), True
            elif how == 'prop':
                t, ft = [[]], True
            else:
                fn = getattr(cls, m)
                t = fallback_template(fn)
                ft = not t[0]       # no parameters: nothing to guess
            entries.append(Entry(cname, m, how, t, ft))
        for opn, kinds in OPERATORS.get(cname, {}).items():
            t = [[('right', False, expand(kinds).split('|'))]] if kinds else [[]]
            entries.append(Entry(cname, opn, 'op', t, True))
            if opn in AUGMENTED and hasattr(cls, '__%s__' % AUGMENTED[opn]):
                entries.append(Entry(cname, AUGMENTED[opn], 'iop', t, True))
    by_key = {}
    for e in entries:
        by_key[e.key] = e
    return entries, by_key, classes
