"""
C17 workload: histories of public API calls over a heap of live, mutually aliased values;
after every call every live value must be bit-for-bit what it was (frame condition), and
re-issued calls on unchanged inputs must give equal outcomes (DESIGN.md section 5).

generate : gen_config(rng), gen_step(world, cfg, rng) -> op record (JSON-able)
execute  : World.step(rec) -> outcome; raises core.Violation.  No PRNG in execution.
"""
import copy
import hashlib
import operator
import signal
import sys
import warnings

import numpy as np

from . import core, values
from . import c17_catalogue as cat

PROP = 'C17'
SALT = 17
HEAP_MAX_ARRAY = 400
HISTORY = 24

_CAT = {}


def catalogue():
    if not _CAT:
        entries, by_key, classes = cat.build()
        _CAT['entries'] = entries
        _CAT['by_key'] = by_key
        _CAT['classes'] = classes
        import spatialmath.base as base
        _CAT['base'] = base
        groups = {}
        for e in entries:
            groups.setdefault(e.target, []).append(e)
        _CAT['groups'] = groups
        # callables with more parameters have a larger argument space: give them more calls
        _CAT['weights'] = {e.key: 1.0 + 3.0 * min(4, sum(len(t) for t in e.templates))
                           for e in entries}
    return _CAT


class CallTimeout(BaseException):
    """A single library call exceeded the wall-clock guard (harness safety net, not a verdict)."""


def _on_alarm(signum, frame):
    raise CallTimeout()


CALL_GUARD_S = 5.0


class _Null:
    """Stream handed to the print helpers; what is written to it is part of the call's output."""

    def __init__(self):
        self.buf = []

    def write(self, s):
        if len(self.buf) < 4096:
            self.buf.append(str(s))
        return len(s)

    def text(self):
        return ''.join(self.buf)[:65536]

    def flush(self):
        pass

    def isatty(self):
        return False

    def __repr__(self):
        return '<null stream>'

    def __deepcopy__(self, memo):
        return self


_NULL_OUT = _Null()

OPS = {'mul': operator.mul, 'truediv': operator.truediv, 'add': operator.add, 'sub': operator.sub,
       'pow': operator.pow, 'matmul': operator.matmul, 'eq': operator.eq, 'ne': operator.ne,
       'xor': operator.xor, 'or': operator.or_, 'neg': operator.neg,
       'imul': operator.imul, 'itruediv': operator.itruediv, 'iadd': operator.iadd,
       'isub': operator.isub, 'ipow': operator.ipow}


class H:
    """Heap entry."""
    __slots__ = ('value', 'kind', 'snap', 'origin', 'n')

    def __init__(self, value, origin):
        self.value = value
        self.kind = values.classify(value)
        self.snap = values.snapshot(value)
        self.origin = origin        # 'result' | 'arg'
        self.n = _length(value)


def _length(v):
    if isinstance(v, np.ndarray):
        return 1
    try:
        return len(v)
    except Exception:                                                # noqa: BLE001
        return 1


def _short(snap):
    return hashlib.sha256(repr(snap).encode()).hexdigest()[:12]


def is_sm_object(v):
    return (type(v).__module__ or '').startswith('spatialmath')


class World:
    def __init__(self, stats=None):
        self.heap = []
        self.step_no = 0
        self.cur_op = None
        self.stats = stats if stats is not None else {}
        self.history = []           # eligible calls, most recent last
        self.C = catalogue()

    # ------------------------------------------------------------------ helpers
    def probe(self, name, n=1):
        self.stats[name] = self.stats.get(name, 0) + n

    def cstat(self, key, field):
        d = self.stats.setdefault('callables', {}).setdefault(key, {})
        d[field] = d.get(field, 0) + 1

    def fail(self, oracle, **detail):
        raise core.Violation(PROP, oracle, self.step_no, self.cur_op, detail)

    def ref(self, j):
        if not self.heap:
            return None
        return self.heap[int(j) % len(self.heap)]

    # ------------------------------------------------------------------ arguments
    def resolve(self, spec, temps, role, recv):
        if 'ref' in spec:
            h = self.ref(spec['ref'])
            if h is None:
                return None
            if h.origin == 'result':
                self.probe('p_operand_was_earlier_result')
            return h.value
        if spec.get('recv'):
            self.probe('p_operand_is_receiver')
            return recv
        if 'gen' in spec:
            kind = spec['gen']
            if kind in values.SCALAR_KINDS:
                return values.gen_scalar(kind, spec.get('k', 0))
            v = values.to_form(values.gen_array(kind, spec.get('k', 0)), spec.get('form', 'array'))
            temps.append((role, v))
            form = spec.get('form', 'array')
            if form != 'array':
                self.probe('p_form_' + form)
            return v
        if 'sym' in spec:
            import sympy
            v = spec.get('lit', 0)
            self.probe('p_symbolic_argument')
            if spec['sym'] == 'Symbol':
                return sympy.Symbol('theta')
            if isinstance(v, int) or float(v).is_integer():
                return sympy.Integer(int(v))
            return sympy.Float(float(v))
        if 'lit' in spec:
            v = spec['lit']
            if spec.get('tuple') and isinstance(v, list):
                v = tuple(v)
            if spec.get('np') == 'arr0':
                v = np.array(float(v))         # a 0-d array where a scalar is expected
            elif spec.get('np') == 'float':
                v = np.float64(v)
            elif spec.get('np') == 'int':
                v = np.int64(v)
            return v
        if 'list' in spec:
            v = [self.resolve(s, temps, role + '[]', recv) for s in spec['list']]
            if spec.get('tuple'):
                v = tuple(v)
            temps.append((role, v))
            return v
        if spec.get('special') == 'stream':
            return _Null()
        if spec.get('special') == 'dtype':
            return {'float64': np.float64, 'float32': np.float32, 'int64': np.int64,
                    'object': None}.get(spec.get('name'), np.float64)
        if spec.get('special') == 'slice':
            return slice(spec.get('start'), spec.get('stop'), spec.get('step'))
        raise core.HarnessError('bad arg spec %r' % (spec,))

    # ------------------------------------------------------------------ invoke
    def _invoke(self, fn, args, kwargs):
        """-> ('ok', result) | ('raise', exception)"""
        old = sys.stdout
        sys.stdout = _NULL_OUT
        streams = [_NULL_OUT] + [v for v in list(args) + list(kwargs.values()) if isinstance(v, _Null)]
        for st in streams:
            st.buf = []
        self._written = ''
        signal.signal(signal.SIGALRM, _on_alarm)
        signal.setitimer(signal.ITIMER_REAL, CALL_GUARD_S, 2.0)   # repeating: a swallowed alarm fires again
        self._gchange = None
        try:
            with np.errstate(all='ignore'), warnings.catch_warnings():
                warnings.simplefilter('ignore')
                g0 = _process_globals()
                try:
                    r = fn(*args, **kwargs)
                finally:
                    g1 = _process_globals()
                    if g1 != g0:
                        self._gchange = {k: [repr(g0[k]), repr(g1[k])] for k in g0 if g0[k] != g1[k]}
                if hasattr(r, '__next__'):
                    out = []
                    for x in r:
                        out.append(x)
                        if len(out) >= 64:
                            break
                    r = out
            return 'ok', r
        except Exception as e:                                       # noqa: BLE001
            return 'raise', e
        except CallTimeout as e:
            # e.g. numpy converting a self-referential list; counted, never a verdict by itself
            self.probe('harness_call_guard_fired')
            return 'raise', e
        finally:
            signal.setitimer(signal.ITIMER_REAL, 0)
            sys.stdout = old
            _close_figures()
            self._written = '\x00'.join(st.text() for st in streams)

    def _callable(self, rec, recv):
        how, target, name = rec['how'], rec['target'], rec['name']
        C = self.C
        if how == 'func':
            return getattr(C['base'], name, None)
        if how == 'ctor':
            return C['classes'].get(target)
        if how in ('cmeth', 'smeth'):
            cls = C['classes'].get(target)
            return getattr(cls, name, None) if cls is not None else None
        if how in ('meth', 'mut'):
            # (after minimisation the receiver may be an object of another class on which this
            #  name is a property; evaluating it here must not escape the harness)
            if isinstance(getattr(type(recv), name, None), property):
                return None
            try:
                return getattr(recv, name, None)
            except Exception:                                        # noqa: BLE001
                return None
        if how == 'prop':
            if not hasattr(type(recv), name):
                return None
            return lambda: getattr(recv, name)
        if how in ('op', 'iop'):
            return OPS.get(name)
        return None

    # ------------------------------------------------------------------ frame check
    def _frame_check(self, temps, temp_snaps, exempt_ids, call_desc, argvals, outcome,
                     exempt_arrays=(), unjudged_role=None):
        unjudged = [v for r, v in argvals if r == unjudged_role] if unjudged_role else []
        unjudged_ids = set()
        for v in unjudged:      # and whatever holds a reference to that value or to its parts
            unjudged_ids |= values.reach_ids(v)
        for idx, h in enumerate(self.heap):
            new = values.snapshot(h.value)
            if new == h.snap:
                continue
            if any(h.value is v for v in unjudged) or \
                    (unjudged_ids and (values.reach_ids(h.value) & unjudged_ids)):
                h.snap = new
                h.kind = values.classify(h.value)
                h.n = _length(h.value)
                self.probe('p_wrong_type_argument_not_judged')
                continue
            if (exempt_ids and (values.reach_ids(h.value) & exempt_ids)) or \
                    (exempt_arrays and _shares(h.value, exempt_arrays)):
                h.snap = new
                h.kind = values.classify(h.value)
                h.n = _length(h.value)
                self.probe('p_alias_exemption_used')
                continue
            role = 'bystander'
            for r, v in argvals:
                if v is h.value:
                    role = r
                    break
            else:
                leaves = values.array_leaves(h.value)
                for r, v in argvals:
                    for a in values.array_leaves(v):
                        if any(np.shares_memory(a, b) for b in leaves):
                            role = 'bystander sharing memory with ' + r
                            break
            self.fail('frame', call=call_desc, outcome=outcome, changed='heap[%d]' % idx, role=role,
                      kind=h.kind, origin=h.origin, where=values.diff_path(h.snap, new),
                      before=values.describe_snapshot(_first_diff(h.snap, new, 0)),
                      after=values.describe_snapshot(_first_diff(h.snap, new, 1)))
        for (role, v), old in zip(temps, temp_snaps):
            new = values.snapshot(v)
            if new != old:
                if unjudged_role and (role == unjudged_role or role.startswith(unjudged_role + '[')):
                    self.probe('p_wrong_type_argument_not_judged')
                    continue
                if (exempt_ids and (values.reach_ids(v) & exempt_ids)) or \
                        (exempt_arrays and _shares(v, exempt_arrays)):
                    continue
                self.fail('frame', call=call_desc, outcome=outcome, changed='fresh argument', role=role,
                          kind=values.classify(v), where=values.diff_path(old, new),
                          before=values.describe_snapshot(_first_diff(old, new, 0)),
                          after=values.describe_snapshot(_first_diff(old, new, 1)))

    # ------------------------------------------------------------------ steps
    def step(self, rec):
        op = rec['op']
        self.cur_op = rec.get('key', op)
        if op == 'call':
            out = self.op_call(rec)
        elif op == 'drop':
            if len(self.heap) > 1:
                del self.heap[int(rec['x']) % len(self.heap)]
                out = {'r': 'ok'}
            else:
                out = {'r': 'skip'}
        elif op == 'redeliver':
            out = self.op_redeliver(rec)
        elif op == 'reorder':
            out = self.op_reorder(rec)
        else:
            raise core.HarnessError('unknown op ' + str(op))
        out['heap'] = len(self.heap)
        self.step_no += 1
        return out

    def op_call(self, rec):
        how = rec['how']
        key = rec['key']
        recv = None
        if how in ('meth', 'prop', 'mut'):
            h = self.ref(rec.get('recv', 0))
            if h is None or not is_sm_object(h.value):
                return {'r': 'skip'}
            recv = h.value
            if h.n > 1:
                self.probe('p_multi_valued_receiver')
        fn = self._callable(rec, recv)
        if fn is None:
            return {'r': 'skip'}
        temps = []
        args = []
        for i, s in enumerate(rec.get('args', [])):
            if 'same' in s:
                j = int(s['same'])
                args.append(args[j] if 0 <= j < len(args) else None)
                self.probe('p_same_object_in_two_positions')
                continue
            args.append(self.resolve(s, temps, 'arg%d' % i, recv))
        kwargs = {}
        for k in sorted(rec.get('kwargs', {})):
            s = rec['kwargs'][k]
            if 'same' in s:
                j = int(s['same'])
                kwargs[k] = args[j] if 0 <= j < len(args) else None
                self.probe('p_same_object_in_two_positions')
                continue
            kwargs[k] = self.resolve(s, temps, 'kw:' + k, recv)
        if how in ('op', 'iop') and args and is_sm_object(args[0]) and _length(args[0]) > 1:
            self.probe('p_multi_valued_receiver')
        argvals = [('arg%d' % i, a) for i, a in enumerate(args)] + \
                  [('kw:' + k, v) for k, v in kwargs.items()]
        if recv is not None:
            argvals.insert(0, ('receiver', recv))
        for r, v in argvals:
            if isinstance(v, np.ndarray):
                if v.base is not None:
                    self.probe('p_operand_is_view')
                if v.ndim == 2 and v.flags['F_CONTIGUOUS'] and not v.flags['C_CONTIGUOUS']:
                    self.probe('p_operand_fortran_order')
                if v.dtype.kind in 'iu':
                    self.probe('p_integer_dtype_operand')
        temp_snaps = [values.snapshot(v) for _, v in temps]
        if how == 'iop' and not (args and is_sm_object(args[0])):
            return {'r': 'skip'}    # the augmented operator of some other type, not the library's

        exempt = set()
        if how == 'mut':
            exempt = {id(recv)}
            d = getattr(recv, 'data', None)
            if isinstance(d, list):
                exempt.add(id(d))
        exempt_arrays = ()
        if how == 'iop' and args and is_sm_object(args[0]):
            # the left operand of an augmented operator may be updated in place (the twist,
            # Plucker and spatial-vector classes inherit UserList's in-place *= and +=, which
            # repeat / extend the value list); values that reach that same list change with it.
            # Values that merely share an element *array* with it are not exempt: no augmented
            # operator of the library writes into arrays, and one that did would also change a
            # right operand that is a copy of the left one.
            exempt = {id(args[0])}
            d = getattr(args[0], 'data', None)
            if isinstance(d, list):
                exempt.add(id(d))

        if rec['name'] in cat.RANDOM:
            np.random.seed(int(rec.get('npseed', 0)) & 0x7FFFFFFF)
        outcome, res = self._invoke(fn, args, kwargs)
        tag = 'ok' if outcome == 'ok' else 'raise:' + type(res).__name__
        self.cstat(key, outcome)
        self.stats.setdefault('call_shapes', set()).add(
            (key, tuple(_shape_of(a) for a in args), tuple(sorted(kwargs)), outcome))
        if outcome == 'raise' and 'debug_exc' in self.stats and not rec.get('fault'):
            self.stats['debug_exc'].setdefault(key, []).append(
                (type(res).__name__, str(res)[:150], rec.get('args'), rec.get('kwargs')))
        if outcome == 'raise':
            self.probe('p_exception_path')
        self._frame_check(temps, temp_snaps, exempt, key, argvals, tag, exempt_arrays,
                          rec.get('fault_unjudged'))
        if self._gchange:
            self.fail('frame', call=key, outcome=tag, changed='process-global settings',
                      role='hidden state', settings=self._gchange)

        out = {'r': tag}
        rsnap = None
        if tag == 'raise:CallTimeout':
            # whatever made this call run away (e.g. a self-referential value list) must not
            # be fed to further calls: evict the operands from the heap
            ids = {id(v) for _, v in argvals}
            self.heap = [h for h in self.heap if id(h.value) not in ids]
        if outcome == 'ok':
            rsnap = values.snapshot(res)
            out['res'] = values.structure(rsnap)
            if self._written.strip('\x00'):
                rsnap = ('with_output', rsnap, ('lit', 'str', self._written))
                self.probe('p_call_wrote_text')
            self._note_aliasing(res, argvals)
            if rec.get('push'):
                self._push_result(res)
        # objects the library let into a malformed state (value list replaced by an array, a list
        # containing itself, ... -- only reachable through arguments of the wrong kind) are not
        # fed to further calls: what happens to them is not C17's business
        bad = [h for h in self.heap if _malformed(h.value)]
        if bad:
            self.probe('harness_evicted_malformed_objects', len(bad))
            self.heap = [h for h in self.heap if not _malformed(h.value)]
        if rec.get('keep_args'):
            for role, v in temps:
                if isinstance(v, np.ndarray) and v.size <= HEAP_MAX_ARRAY and \
                        not any(h.value is v for h in self.heap):
                    self.heap.append(H(v, 'arg'))
        if how in ('mut', 'iop') and outcome == 'ok' and not rec.get('no_diff'):
            # a documented mutation has just changed x: every remembered call that had x among
            # its inputs is issued again on x as it is now and on a rebuilt object of equal public
            # value -- results cached on x that the mutation failed to invalidate show up here
            target = recv if how == 'mut' else (args[0] if args else None)
            if target is not None and is_sm_object(target):
                saved_op = self.cur_op
                for ent in list(self.history)[-8:]:
                    ins = [ent['inputs']['recv']] + list(ent['inputs']['args']) + \
                          list(ent['inputs']['kwargs'].values())
                    if any(v is target for v in ins):
                        self.cur_op = 'rebuild:' + ent['rec']['key']
                        self._differential(ent)
                self.cur_op = saved_op
        one_shot = any(hasattr(v, '__next__') for _, v in argvals)     # a consumed iterator cannot
        if how not in ('mut', 'iop') and rec['name'] not in cat.RANDOM and tag != 'raise:CallTimeout' \
                and not one_shot and not rec.get('fault_unjudged'):   # be delivered a second time;
            # a call that was given a value of a type its parameter does not accept is not
            # remembered either: how it fails on that value is not the property's business
            inputs = {'recv': recv, 'args': args, 'kwargs': kwargs}
            self.history.append({'rec': rec, 'inputs': inputs,
                                 'insnap': values.snapshot([recv, args, kwargs]),
                                 'inident': _identity_outline((recv, args, kwargs)),
                                 'tag': tag, 'rsnap': rsnap, 'step': self.step_no,
                                 'res': res if outcome == 'ok' else None})
            if len(self.history) > HISTORY:
                del self.history[0]
        return out

    def _note_aliasing(self, res, argvals):
        for r, v in argvals:
            if res is v and isinstance(v, (np.ndarray, list)) or (res is v and is_sm_object(v)):
                self.probe('p_result_is_operand')
                return
        rl = values.array_leaves(res)
        if not rl:
            return
        for r, v in argvals:
            for a in values.array_leaves(v):
                for b in rl:
                    if a is b or (a.size and b.size and np.shares_memory(a, b)):
                        self.probe('p_result_shares_memory')
                        return

    def _push_result(self, res):
        items = [res]
        if isinstance(res, (tuple, list)) and not (res and all(isinstance(x, (int, float)) for x in res)):
            items = [x for x in res[:4]]
        for x in items:
            if isinstance(x, np.ndarray):
                if type(x) is not np.ndarray or x.size == 0 or x.size > HEAP_MAX_ARRAY \
                        or x.dtype.kind not in 'fiub':
                    continue
            elif is_sm_object(x):
                if _length(x) > 12 or _malformed(x):
                    continue
                if any(a.dtype == object for a in values.array_leaves(x)):
                    continue            # symbolic values are not fed to further calls
            else:
                continue
            if any(h.value is x for h in self.heap):
                continue
            self.heap.append(H(x, 'result'))

    # ------------------------------------------------------------------ determinism oracles
    def _reissue(self, ent, use_copy, oracle):
        rec = ent['rec']
        if values.snapshot([ent['inputs']['recv'], ent['inputs']['args'], ent['inputs']['kwargs']]) \
                != ent['insnap']:
            return 'stale'      # an input was legitimately mutated since: not 'equal inputs' any more
        now = _identity_outline((ent['inputs']['recv'], ent['inputs']['args'], ent['inputs']['kwargs']))
        if len(now) != len(ent['inident']) or any(a is not b for a, b in zip(now, ent['inident'])):
            # same values but a different aliasing structure (an element array was replaced by an
            # equal one, two operands now share an array, ...): not the same inputs either
            return 'stale'
        inp = ent['inputs']
        if use_copy:
            leaves = values.array_leaves([inp['recv'], inp['args'], list(inp['kwargs'].values())])
            if all(a.flags['C_CONTIGUOUS'] and a.base is None and a.flags.writeable
                   and type(a) is np.ndarray for a in leaves):        # only faithful copies count
                inp = copy.deepcopy(inp)
                self.probe('p_redelivered_on_copies')
        fn = self._callable(rec, inp['recv'])
        if fn is None:
            return 'skip'
        allin = [('receiver', inp['recv'])] + [('arg%d' % i, a) for i, a in enumerate(inp['args'])] + \
                [('kw:' + k, v) for k, v in inp['kwargs'].items()]
        temps = [(r, v) for r, v in allin if v is not None and not any(h.value is v for h in self.heap)]
        temp_snaps = [values.snapshot(v) for _, v in temps]
        outcome, res = self._invoke(fn, inp['args'], inp['kwargs'])
        tag = 'ok' if outcome == 'ok' else 'raise:' + type(res).__name__
        self._frame_check(temps, temp_snaps, set(), rec['key'] + ' (re-issued)', allin, tag,
                          (), rec.get('fault_unjudged'))
        if self._gchange:
            self.fail('frame', call=rec['key'] + ' (re-issued)', outcome=tag,
                      changed='process-global settings', role='hidden state', settings=self._gchange)
        if tag != ent['tag']:
            self.fail(oracle, call=rec['key'], first=ent['tag'], second=tag,
                      first_step=ent['step'], on_copies=bool(use_copy and inp is not ent['inputs']))
        if outcome == 'ok':
            rs = values.snapshot(res)
            if self._written.strip('\x00'):
                rs = ('with_output', rs, ('lit', 'str', self._written))
            if rs != ent['rsnap'] and not values.approx_equal(rs, ent['rsnap']):
                self.fail(oracle, call=rec['key'], first_step=ent['step'],
                          where=values.diff_path(ent['rsnap'], rs),
                          first=values.describe_snapshot(_first_diff(ent['rsnap'], rs, 0)),
                          second=values.describe_snapshot(_first_diff(ent['rsnap'], rs, 1)),
                          on_copies=bool(use_copy and inp is not ent['inputs']))
        return 'same'

    def op_redeliver(self, rec):
        if not self.history:
            return {'r': 'skip'}
        back = int(rec.get('back', 1))
        ent = self.history[-1 - ((back - 1) % len(self.history))]
        self.cur_op = 'redeliver:' + ent['rec']['key']
        poked = False
        if rec.get('poke') and ent['tag'] == 'ok':
            poked = self._poke(ent['res'])
        r = self._reissue(ent, bool(rec.get('copy')), 'redeliver')
        if r == 'same':
            self.probe('f_redeliver')
            if poked:
                self.probe('f_redeliver_after_caller_wrote_into_result')
        return {'r': r, 'of': ent['rec']['key'], 'poked': poked}

    def _poke(self, res):
        """The caller writes into a value an earlier call returned (its own data by then).
        Every heap snapshot is refreshed afterwards: this is the caller's doing, not a call's."""
        done = False
        for a in values.array_leaves(res):
            if a.dtype.kind == 'f' and a.flags.writeable and a.size:
                a[...] = a * 1.5 + 0.25
                done = True
        if done:
            for h in self.heap:
                h.snap = values.snapshot(h.value)
                h.kind = values.classify(h.value)
                h.n = _length(h.value)
        return done

    # -- equal public value, different object: the rebuild differential ------------------------
    def _rebuild(self, v, memo):
        """An object with the same class and the same public value as v, built without going
        through v: fresh value list, fresh copies of the element arrays (arrays shared inside the
        inputs stay shared), no private attributes.  Other kinds of value are passed through."""
        if id(v) in memo:
            return memo[id(v)]
        out = v
        if isinstance(v, np.ndarray):
            out = np.array(v)
        elif is_sm_object(v) and hasattr(v, 'data') and not _malformed(v) and hasattr(type(v), 'Empty'):
            try:
                out = type(v).Empty()
                out.data = [self._rebuild(a, memo) for a in v.data]
            except Exception:                                        # noqa: BLE001
                out = v
        elif isinstance(v, list):
            out = [self._rebuild(x, memo) for x in v]
        elif isinstance(v, tuple):
            out = tuple(self._rebuild(x, memo) for x in v)
        memo[id(v)] = out
        return out

    def _differential(self, ent):
        """Issue the remembered call now on its (possibly since mutated) inputs and on rebuilt
        inputs of equal public value; the two outcomes must agree."""
        rec = ent['rec']
        inp = ent['inputs']
        if not any(is_sm_object(v) and hasattr(v, 'data')
                   for v in [inp['recv']] + list(inp['args']) + list(inp['kwargs'].values())):
            return 'skip'
        if any(_malformed(v) for v in [inp['recv']] + list(inp['args']) + list(inp['kwargs'].values())):
            return 'skip'       # an input has been driven into a malformed state since: not judged
        memo = {}
        twin = {'recv': self._rebuild(inp['recv'], memo),
                'args': [self._rebuild(a, memo) for a in inp['args']],
                'kwargs': {k: self._rebuild(v, memo) for k, v in inp['kwargs'].items()}}
        if values.snapshot([twin['recv'], twin['args'], twin['kwargs']]) != \
                values.snapshot([inp['recv'], inp['args'], inp['kwargs']]):
            return 'skip'       # could not be rebuilt faithfully (exotic argument)
        outs = []
        for which in (inp, twin):
            fn = self._callable(rec, which['recv'])
            if fn is None:
                return 'skip'
            allin = [('receiver', which['recv'])] + \
                    [('arg%d' % i, a) for i, a in enumerate(which['args'])] + \
                    [('kw:' + k, v) for k, v in which['kwargs'].items()]
            temps = [(r, v) for r, v in allin
                     if v is not None and not any(h.value is v for h in self.heap)]
            temp_snaps = [values.snapshot(v) for _, v in temps]
            outcome, res = self._invoke(fn, which['args'], which['kwargs'])
            tag = 'ok' if outcome == 'ok' else 'raise:' + type(res).__name__
            self._frame_check(temps, temp_snaps, set(), rec['key'] + ' (differential)', allin, tag,
                              (), rec.get('fault_unjudged'))
            if tag == 'raise:CallTimeout':
                return 'skip'
            rs = values.snapshot(res) if outcome == 'ok' else None
            if outcome == 'ok' and self._written.strip('\x00'):
                rs = ('with_output', rs, ('lit', 'str', self._written))
            outs.append((tag, rs))
        (t1, r1), (t2, r2) = outs
        if t1 != t2:
            self.fail('rebuild', call=rec['key'], on_the_object=t1, on_a_rebuilt_equal_object=t2)
        if r1 != r2 and not values.approx_equal(r1, r2):
            self.fail('rebuild', call=rec['key'], where=values.diff_path(r1, r2),
                      on_the_object=values.describe_snapshot(_first_diff(r1, r2, 0)),
                      on_a_rebuilt_equal_object=values.describe_snapshot(_first_diff(r1, r2, 1)))
        # the original inputs may have been legitimately mutated since the call was remembered:
        # refresh the heap snapshots of nothing -- no call above is allowed to change anything
        self.probe('f_rebuild_differential')
        return 'same'

    def op_reorder(self, rec):
        """Re-issue every remembered call in reverse order; with poke, the caller first writes
        into the value that call returned; with rebuild, each call is issued on its inputs as
        they are now and on rebuilt inputs of equal public value."""
        n = 0
        if rec.get('rebuild'):
            for ent in reversed(list(self.history)):
                self.cur_op = 'rebuild:' + ent['rec']['key']
                if self._differential(ent) == 'same':
                    n += 1
            return {'r': 'ok', 'n': n}
        poke = bool(rec.get('poke'))
        for ent in reversed(list(self.history)):
            self.cur_op = 'reorder:' + ent['rec']['key']
            poked = poke and ent['tag'] == 'ok' and self._poke(ent['res'])
            if self._reissue(ent, False, 'reorder') == 'same':
                n += 1
                if poked:
                    self.probe('f_redeliver_after_caller_wrote_into_result')
        self.probe('f_reorder_calls', n)
        return {'r': 'ok', 'n': n}


def _close_figures():
    plt = sys.modules.get('matplotlib.pyplot')
    if plt is not None:
        try:
            if plt.get_fignums():
                plt.close('all')
        except Exception:                                            # noqa: BLE001
            pass


def _process_globals():
    """Process-wide settings a call has no business changing: a changed print precision or
    error mode makes later, unrelated calls return different results."""
    return {'numpy.printoptions': sorted((k, repr(v)) for k, v in np.get_printoptions().items()),
            'numpy.errstate': sorted(np.geterr().items()),
            'sys.stdout': id(sys.stdout) == id(_NULL_OUT),
            'recursionlimit': sys.getrecursionlimit()}


def _malformed(v):
    """Value list replaced by something else, holding non-arrays, or grown beyond any sensible
    size (x *= 1000 repeats the list 1000 times): such objects are not fed to further calls."""
    if not is_sm_object(v) or not hasattr(v, 'data'):
        return False
    d = v.data
    return not isinstance(d, list) or len(d) > 64 or any(not isinstance(a, np.ndarray) for a in d)


def _shares(v, arrays):
    for a in values.array_leaves(v):
        for b in arrays:
            if a is b or (a.size and b.size and np.shares_memory(a, b)):
                return True
    return False


def _identity_outline(v, depth=0):
    """The mutable objects a value is made of, in traversal order (kept alive by the caller)."""
    out = []
    if depth > 6:
        return out
    if isinstance(v, np.ndarray):
        out.append(v)
    elif isinstance(v, (list, tuple)):
        if isinstance(v, list):
            out.append(v)
        for x in v:
            out.extend(_identity_outline(x, depth + 1))
    elif isinstance(v, dict):
        for x in v.values():
            out.extend(_identity_outline(x, depth + 1))
    elif is_sm_object(v):
        out.append(v)
        for k2 in sorted(getattr(v, '__dict__', {})):
            if not k2.startswith('_'):
                out.extend(_identity_outline(v.__dict__[k2], depth + 1))
    return out


def _shape_of(a):
    if isinstance(a, np.ndarray):
        lay = 'C' if a.flags['C_CONTIGUOUS'] else ('F' if a.flags['F_CONTIGUOUS'] else 'S')
        return 'nd%s%s%s%s' % (list(a.shape), a.dtype.char, lay, 'v' if a.base is not None else '')
    if is_sm_object(a):
        n = _length(a)
        return '%s#%s' % (type(a).__name__, n if n < 3 else 'n')
    if isinstance(a, (list, tuple)):
        return '%s%d' % (type(a).__name__, len(a))
    return type(a).__name__


def _first_diff(a, b, which):
    """Descend to the first differing sub-snapshot; return side `which` of it."""
    for _ in range(32):
        if not (isinstance(a, tuple) and isinstance(b, tuple) and len(a) == len(b)):
            break
        if a and a[0] == 'nd':
            break
        for x, y in zip(a, b):
            if x != y:
                a, b = x, y
                break
        else:
            break
    return (a, b)[which]


# --------------------------------------------------------------------------- #
# generation

ORDERS = ['zyx', 'xyz', 'yxz', 'arm', 'vehicle', 'camera']
ORIENTS = ['rpy/zyx', 'rpy/yxz', 'eul', 'angvec']
BAD_KINDS = ['sc', 'v0', 'v2', 'v3', 'v4', 'v6', 'R2', 'T2', 'R3', 'T3', 'm33', 'm66', 'p3', 'none', 'str',
             'q', 'se3', 'so3', 'ANYOBJ', 'int', 'bool']


def kind_category(kind):
    """Coarse Python-type category of the values a kind produces."""
    if kind in ('unit', 'order', 'orient', 'out', 'str', 'fmt', 'color'):
        return 'str'
    if kind == 'dtype':
        return 'dtype'
    if kind == 'stream':
        return 'stream'
    if kind == 'none':
        return 'none'
    if kind == 'slice':
        return 'slice'
    if kind.startswith(('obj:', 'SAME', 'LO:')) or kind in ('WRONG', 'ANYOBJ'):
        return 'object'
    return 'numeric'        # numbers, booleans, arrays, lists / tuples of numbers or arrays


class NeedObject(Exception):
    def __init__(self, cname, multi=False, single=False):
        self.cname = cname
        self.multi = multi
        self.single = single


def gen_config(rng):
    C = catalogue()
    cls = list(C['classes'])
    focus = rng.choice(['base', 'base', 'class', 'class', 'ops', 'mixed', 'mixed', 'deep', 'deep'])
    rich = [e.key for e in C['entries'] if sum(len(t) for t in e.templates) >= 2]
    return {
        'focus': focus,
        'deep': rng.sample(rich, rng.choice([1, 2])),
        'weighted': rng.random() < 0.7,
        'classes': rng.sample(cls, rng.choice([1, 2, 3])),
        'fault_rate': rng.choice([0.0, 0.0, 0.1, 0.25]),
        'steps': rng.choice([3, 5, 8, 12, 16, 24, 32, 40]),
        'heap_cap': rng.choice([6, 12, 24]),
        'redeliver_rate': rng.choice([0.0, 0.1, 0.25]),
        'final_passes': rng.choice([[], [{'op': 'reorder'}], [{'op': 'reorder', 'poke': True}],
                                    [{'op': 'reorder', 'rebuild': True}],
                                    [{'op': 'reorder'}, {'op': 'reorder', 'poke': True}],
                                    [{'op': 'reorder', 'rebuild': True}, {'op': 'reorder'},
                                     {'op': 'reorder', 'poke': True}]]),
        'heap_ref_rate': rng.choice([0.2, 0.5, 0.8]),
        'plain_forms': rng.random() < 0.3,
        'multi_rate': rng.choice([0.1, 0.4]),
        'poke_rate': rng.choice([0.0, 0.5, 0.5]),
        'opt_rate': rng.choice([0.15, 0.4, 0.85]),
        'special_rate': rng.choice([0.0, 0.1, 0.1, 0.5]),
        'dup_rate': rng.choice([0.0, 0.1, 0.3]),
        'sym_rate': rng.choice([0.0, 0.0, 0.0, 0.2]),
        'follow_mut_rate': rng.choice([0.0, 0.0, 0.15, 0.4]),
    }


def _heap_refs(world, pred):
    return [j for j, h in enumerate(world.heap) if pred(h)]


def _gen_array_spec(kind, rng, cfg):
    if cfg['plain_forms'] or rng.random() < 0.45:
        form = 'array'
    elif kind == 'dims':
        # plot limits go to matplotlib, which normalises what it is given in place; a 2-D form
        # would hand it views of the caller's array (dims[i] is a view then, not a scalar)
        form = rng.choice(['list', 'tuple', 'intlist', 'view', 'strided', 'f32'])
    elif kind in values.VEC_KINDS:
        form = rng.choice(values.VEC_FORMS)
    else:
        form = rng.choice(values.MAT_FORMS)
    return {'gen': kind, 'k': rng.randrange(8) if rng.random() > cfg.get('special_rate', 0.0)
            else 8 + rng.randrange(7), 'form': form}


def make_spec(kind, world, cfg, rng, recv_cls, recv_ref=None):
    """Build an argument spec for one kind.  May raise NeedObject."""
    if kind in values.SCALAR_KINDS:
        s = {'lit': values.gen_scalar(kind, rng.randrange(16 if rng.random() < cfg.get('special_rate', 0.0)
                                                         else 8))}
        if kind in ('ang', 'sc', 'int') and rng.random() < cfg.get('sym_rate', 0.0):
            # SymPy numbers and symbols are accepted by the trigonometric builders
            s['sym'] = rng.choice(['Number', 'Number', 'Symbol'])
        elif kind in ('ang', 'sc', 's01') and rng.random() < 0.15:
            s['np'] = rng.choice(['float', 'float', 'arr0'])
        elif kind in ('int', 'posint') and rng.random() < 0.1:
            s['np'] = 'int'
        return s
    if kind in values.ARRAY_KINDS:
        refs = _heap_refs(world, lambda h: h.kind == kind and not is_sm_object(h.value))
        if refs and rng.random() < cfg['heap_ref_rate']:
            return {'ref': rng.choice(refs)}
        return _gen_array_spec(kind, rng, cfg)
    if kind == 'unit':
        return {'lit': rng.choice(['rad', 'deg'])}
    if kind == 'order':
        return {'lit': rng.choice(ORDERS)}
    if kind == 'orient':
        return {'lit': rng.choice(ORIENTS)}
    if kind == 'out':
        return {'lit': rng.choice(['array', 'sequence', 'row', 'col', 'list'])}
    if kind == 'dim':
        return {'lit': rng.choice([2, 3, 4, 6, None])}
    if kind == 'shape':
        return {'lit': rng.choice([[3, 3], [4, 4], [2, 2], [None, 3], [3, None]]), 'tuple': True}
    if kind == 'str':
        return {'lit': 'lbl'}
    if kind == 'none':
        return {'lit': None}
    if kind == 'tolf':
        return {'lit': rng.choice([1e-9, 1e-6])}
    if kind == 'stream':
        return {'special': 'stream'}
    if kind == 'dtype':
        return {'special': 'dtype', 'name': rng.choice(['float64', 'float32', 'int64', 'object'])}
    if kind == 'false':
        return {'lit': False}
    if kind == 'color':
        return {'lit': rng.choice(['red', 'blue', 'k'])}
    if kind == 'fmt':
        return {'lit': rng.choice(['{:8.2g}', '{:.3f}', '{:10.4f}'])}
    if kind == 'idx':
        return {'lit': rng.choice([0, 0, 1, -1, 2, -2, 5])}
    if kind == 'slice':
        return {'special': 'slice', 'start': rng.choice([None, 0, 1, -2]),
                'stop': rng.choice([None, 1, 2, -1]), 'step': rng.choice([None, None, 1, -1, 2])}
    if kind == 'tN01':
        return {'list': [{'lit': x} for x in rng.choice([[0.0, 0.5, 1.0], [0.25, 0.75], [0.1]])]}
    if kind in ('SAME', 'SAME1', 'SAMEN'):
        if recv_cls is None:
            return {'lit': None}
        if rng.random() < 0.15:
            return {'recv': True}
        want = 'obj:' + recv_cls
        if kind == 'SAME1':
            refs = _heap_refs(world, lambda h: h.kind == want and h.n == 1)
        elif kind == 'SAMEN':
            refs = _heap_refs(world, lambda h: h.kind == want and h.n > 1)
        else:
            refs = _heap_refs(world, lambda h: h.kind == want)
        refs = [j for j in refs if j != recv_ref]      # another object, not the receiver again
        if refs:
            return {'ref': rng.choice(refs)}
        if rng.random() < 0.7:
            raise NeedObject(recv_cls, multi=(kind == 'SAMEN'), single=(kind == 'SAME1'))
        return {'recv': True}
    if kind.startswith('obj:'):
        cname = kind[4:]
        refs = _heap_refs(world, lambda h: h.kind == kind)
        if refs:
            return {'ref': rng.choice(refs)}
        raise NeedObject(cname)
    if kind.startswith('L:'):
        spec = {'list': [_gen_array_spec(kind[2:], rng, cfg) for _ in range(rng.choice([2, 2, 3, 5]))]}
        if rng.random() < 0.25:
            spec['tuple'] = True
        return spec
    if kind.startswith('LO:'):
        want = 'obj:' + kind[3:]
        refs = _heap_refs(world, lambda h: h.kind == want and h.n == 1)
        if not refs:
            raise NeedObject(kind[3:])
        spec = {'list': [{'ref': rng.choice(refs)} for _ in range(rng.choice([1, 2, 3]))]}
        if rng.random() < 0.25:
            spec['tuple'] = True
        return spec
    if kind == 'WRONG':
        refs = _heap_refs(world, lambda h: is_sm_object(h.value) and h.kind != 'obj:%s' % recv_cls)
        if refs and rng.random() < 0.6:
            return {'ref': rng.choice(refs)}
        return _gen_array_spec(rng.choice(['T3', 'R3', 'v4', 'v6']), rng, cfg)
    if kind == 'ANYOBJ':
        refs = _heap_refs(world, lambda h: is_sm_object(h.value))
        if refs:
            return {'ref': rng.choice(refs)}
        return {'lit': None}
    raise core.HarnessError('unknown kind %r' % (kind,))


def gen_call(entry, world, cfg, rng, recv_ref=None, multi=False, single=False):
    """Build a call record for a catalogue entry.  May raise NeedObject."""
    rec = {'op': 'call', 'key': entry.key, 'how': entry.how, 'target': entry.target,
           'name': entry.name, 'push': rng.random() < 0.75}
    recv_cls = entry.target if entry.target != 'base' else None
    if entry.how in ('meth', 'prop', 'mut', 'op', 'iop'):
        want = 'obj:' + entry.target
        if recv_ref is None:
            refs = _heap_refs(world, lambda h: h.kind == want)
            if rng.random() < cfg['multi_rate']:
                m = [j for j in refs if world.heap[j].n > 1]
                if not m and refs:
                    raise NeedObject(entry.target, multi=True)
                refs = m or refs
            if not refs:
                raise NeedObject(entry.target)
            recv_ref = rng.choice(refs)
    templates = entry.templates or [[]]
    if multi:
        t = [p for p in templates if any(k.startswith('L:') for _, _, ks in p for k in ks)]
        templates = t or templates
    # templates with parameters say more than the no-argument form: weight them accordingly
    tmpl = core.weighted_choice(rng, [(t, 1.0 + 2.0 * len(t)) for t in templates])
    args, kwargs = [], {}
    positional = True
    prev = None
    slot_kinds = {}
    for (pname, optional, kinds) in tmpl:
        if optional and rng.random() > (0.5 if cfg.get('focus') == 'deep' else cfg.get('opt_rate', 0.3)):
            positional = False
            continue
        ks = kinds
        if multi:
            ks = [k for k in kinds if k.startswith('L:')] or kinds
        if single:
            ks = [k for k in kinds if not k.startswith(('L:', 'LO:')) and k not in ('qN', 'tN')] or kinds
        kind = rng.choice(ks)
        if prev is not None and prev[0] in ks and rng.random() < cfg.get('dup_rate', 0.0) \
                and ('ref' in prev[1] or 'recv' in prev[1] or ('gen' in prev[1] and args
                                                                 and args[-1] is prev[1])):
            # the same live value in two argument positions: f(x, x)
            kind = prev[0]
            spec = prev[1] if 'gen' not in prev[1] else {'same': len(args) - 1}
        else:
            spec = make_spec(kind, world, cfg, rng, recv_cls, recv_ref)
        prev = (kind, spec)
        if positional and not optional and pname not in cat.KEYWORD_ONLY:
            args.append(spec)
            slot_kinds[('a', len(args) - 1)] = kinds
        else:
            kwargs[pname] = spec
            slot_kinds[('k', pname)] = kinds
    if entry.how in ('meth', 'prop', 'mut'):
        rec['recv'] = recv_ref
    elif entry.how in ('op', 'iop'):
        left = {'ref': recv_ref}
        if entry.name == 'neg':
            args = [left]
        else:
            right = args[0] if args else {'ref': recv_ref}
            if entry.how == 'op' and rng.random() < 0.12:
                # reflected dispatch: something else on the left
                lk = rng.choice(cat.REFLECTED_LEFT.split('|'))
                try:
                    args = [make_spec(lk, world, cfg, rng, recv_cls), left]
                except NeedObject:
                    args = [left, right]
            else:
                args = [left, right]
        kwargs = {}
    rec['args'] = args
    if kwargs:
        rec['kwargs'] = kwargs
    if entry.name in cat.RANDOM:
        rec['npseed'] = rng.randrange(1 << 30)
    if rng.random() < 0.25:
        rec['keep_args'] = True
    # fault: bad_args (not for the plotting entry points: their arguments are handed on to
    # matplotlib, which is third-party code and edits limit values in place through views)
    plotting = entry.name in ('trplot', 'trplot2', 'plotvol2', 'plotvol3', 'plot')
    if cfg['fault_rate'] and rng.random() < cfg['fault_rate'] and not plotting:
        slots = [('a', i) for i in range(len(args))] + [('k', k) for k in sorted(kwargs)]
        if slots:
            which = rng.choice(slots)
            bk = rng.choice(BAD_KINDS)
            try:
                bad = make_spec(bk, world, cfg, rng, recv_cls)
            except NeedObject:
                bad = {'lit': None}
            if which[0] == 'a':
                rec['args'][which[1]] = bad
            else:
                rec['kwargs'][which[1]] = bad
            rec['fault'] = 'bad_args'
            accepted = {kind_category(k) for k in slot_kinds.get(which, [])}
            if entry.how in ('op', 'iop'):
                accepted = {'numeric', 'object'}
            if accepted and kind_category(bk) not in accepted:
                # a value of a type the parameter does not accept at all (a list where a format
                # string belongs): the property quantifies over accepted argument forms, so what
                # happens to THAT value is not judged; everything else still is
                rec['fault_unjudged'] = ('arg%d' % which[1]) if which[0] == 'a' else ('kw:' + which[1])
    return rec


def gen_ctor(cname, world, cfg, rng, multi=False, depth=0, single=False):
    C = catalogue()
    entry = C['by_key'].get('%s.__init__' % cname)
    if entry is None:
        raise core.HarnessError('no constructor entry for ' + cname)
    for _ in range(8):
        try:
            rec = gen_call(entry, world, cfg, rng, multi=multi, single=single)
            rec['push'] = True
            rec.pop('fault', None)
            return rec
        except NeedObject as e:
            if depth < 2 and e.cname != cname:
                return gen_ctor(e.cname, world, cfg, rng, depth=depth + 1)
    # last resort: default constructor
    return {'op': 'call', 'key': entry.key, 'how': 'ctor', 'target': cname, 'name': '__init__',
            'args': [], 'push': True}


def _wchoice(rng, group):
    W = catalogue()['weights']
    return core.weighted_choice(rng, [(e, W[e.key]) for e in group])


def choose_entry(world, cfg, rng):
    C = catalogue()
    f = cfg['focus']
    r = rng.random()
    pick = _wchoice if cfg.get('weighted', True) else (lambda g_rng, group: g_rng.choice(group))
    if f == 'base' and r < 0.8:
        return pick(rng, C['groups']['base'])
    if f in ('class', 'ops') and r < 0.85:
        cname = rng.choice(cfg['classes'])
        group = C['groups'][cname]
        if f == 'ops':
            g2 = [e for e in group if e.how in ('op', 'iop')]
            if g2 and rng.random() < 0.8:
                return rng.choice(g2)
        return pick(rng, group)
    if f == 'deep' and r < 0.65:
        return C['by_key'][rng.choice(cfg['deep'])]
    return pick(rng, C['entries'])


def gen_step(world, cfg, rng):
    if len(world.heap) > cfg['heap_cap']:
        return {'op': 'drop', 'x': rng.randrange(len(world.heap))}
    if world.history and rng.random() < cfg['redeliver_rate']:
        return {'op': 'redeliver', 'back': rng.choice([1, 1, 1, 1, 2, 2, 3, 5, 8, 15]),
                'copy': rng.random() < 0.5,
                'poke': rng.random() < cfg['poke_rate']}
    C = catalogue()
    # "use it, then change it": right after a method call on a list-capable object, a documented
    # list mutation of that same object (what the object cached about itself must not survive it)
    last = getattr(world, 'last_meth', None)
    world.last_meth = None
    if last is not None and rng.random() < cfg.get('follow_mut_rate', 0.0) and last[0] < len(world.heap):
        muts = [e for e in C['groups'].get(last[1], []) if e.how == 'mut']
        h = world.heap[last[0]]
        if muts and h.kind == 'obj:' + last[1]:
            try:
                return gen_call(rng.choice(muts), world, cfg, rng, recv_ref=last[0])
            except NeedObject:
                pass
    pending = getattr(world, 'pending_entry', None)
    world.pending_entry = None
    entry = C['by_key'][pending[0]] if pending else choose_entry(world, cfg, rng)
    try:
        rec = gen_call(entry, world, cfg, rng)
        if rec.get('how') in ('meth', 'prop') and 'recv' in rec:
            world.last_meth = (rec['recv'], entry.target)
        return rec
    except NeedObject as e:
        tries = pending[1] if pending else 0
        if tries < 3:
            # come back to this call once the object it needs exists
            world.pending_entry = (entry.key, tries + 1)
        return gen_ctor(e.cname, world, cfg, rng, multi=e.multi, single=e.single)


def generate_and_run(seed, stats=None, cfg_override=None):
    rng = core.rng_for(seed)
    cfg = gen_config(rng)
    if cfg_override:
        cfg.update(cfg_override)
    world = World(stats)
    ops, log, viol = [], [], None
    total = cfg['steps']
    try:
        while len(ops) < total:
            rec = gen_step(world, cfg, rng)
            ops.append(rec)
            log.append(world.step(rec))
        for rec in cfg['final_passes']:
            rec = dict(rec)
            ops.append(rec)
            log.append(world.step(rec))
    except core.Violation as v:
        viol = v
    return {'seed': seed, 'cfg': cfg, 'ops': ops, 'log': log, 'violation': viol, 'world': world}


def execute(ops, stats=None):
    world = World(stats)
    log = []
    try:
        for rec in ops:
            log.append(world.step(rec))
    except core.Violation as v:
        return log, v
    return log, None


def nontrivial(ops, log):
    """>= 1 successful call one of whose operands was produced by an earlier call."""
    for r, o in zip(ops, log):
        if r.get('op') == 'call' and o.get('r') == 'ok':
            specs = list(r.get('args', [])) + list(r.get('kwargs', {}).values())
            if 'recv' in r or any('ref' in s or 'list' in s for s in specs if isinstance(s, dict)):
                return True
    return False


def _simplify_spec(s):
    out = []
    if 'gen' in s:
        if s.get('form', 'array') != 'array':
            out.append(dict(s, form='array'))
        if s.get('k', 0) != 0:
            out.append(dict(s, k=0))
    if 'ref' in s and s['ref'] != 0:
        out.append({'ref': 0})
    if 'same' in s:
        out.append({'gen': 'v3', 'k': 0, 'form': 'array'})
    if 'np' in s:
        t = dict(s)
        t.pop('np')
        out.append(t)
    if s.get('sym') == 'Symbol':
        out.append(dict(s, sym='Number'))
    if 'list' in s and len(s['list']) > 1:
        for k in range(len(s['list'])):
            out.append(dict(s, list=s['list'][:k] + s['list'][k + 1:]))
    if 'list' in s:
        for k, x in enumerate(s['list']):
            for y in _simplify_spec(x):
                out.append(dict(s, list=s['list'][:k] + [y] + s['list'][k + 1:]))
    return out


def simplify(rec):
    out = []
    if rec.get('op') == 'redeliver':
        if rec.get('copy'):
            out.append(dict(rec, copy=False))
        if rec.get('poke'):
            out.append(dict(rec, poke=False))
        if rec.get('back', 1) != 1:
            out.append(dict(rec, back=1))
        return out
    if rec.get('op') == 'reorder' and rec.get('poke'):
        return [dict(rec, poke=False)]
    if rec.get('op') != 'call':
        return out
    for key in ('keep_args', 'fault'):
        if key in rec and not (key == 'fault' and 'fault_unjudged' in rec):
            r = dict(rec)
            r.pop(key)
            out.append(r)
    if rec.get('kwargs'):
        for k in sorted(rec['kwargs']):
            r = dict(rec)
            r['kwargs'] = {a: b for a, b in rec['kwargs'].items() if a != k}
            if not r['kwargs']:
                r.pop('kwargs')
            out.append(r)
        for k in sorted(rec['kwargs']):
            for y in _simplify_spec(rec['kwargs'][k]):
                r = dict(rec)
                r['kwargs'] = dict(rec['kwargs'])
                r['kwargs'][k] = y
                out.append(r)
    for i, s in enumerate(rec.get('args', [])):
        for y in _simplify_spec(s):
            r = dict(rec)
            r['args'] = rec['args'][:i] + [y] + rec['args'][i + 1:]
            out.append(r)
    if rec.get('recv'):
        out.append(dict(rec, recv=0))
    return out


# --------------------------------------------------------------------------- #
# evidence

RULE = ('each run: a seeded swarm configuration (focus: base functions / 1-3 classes / operators / '
        'mixed; fault rate; heap size; re-delivery rate; container forms), then up to 40 public API '
        'calls over one heap of live values whose results are pushed back and reused; optional '
        're-issued calls and a final reverse-order pass. A run is non-trivial when at least one '
        'successful call consumed a value produced earlier in the run (a heap reference, a receiver, '
        'or a list of live objects); distinct = distinct SHA-256 of (op records, observed outcomes)')
SEAMS = ['public call boundaries (no repository hook)',
         'numpy.random global state, re-seeded from the op record before each Rand / rand call',
         'sys.stdout replaced by a null stream during calls; file= arguments get a null stream']
ASSUMPTIONS = [
    'snapshots compare array bytes, dtype and shape, list/tuple structure, and the public instance '
    'attributes of library objects (attributes starting with "_" are not part of the value)',
    'exempt from the frame condition: the receiver of append/extend/insert/pop/clear/reverse/'
    '__setitem__/__delitem__, the left operand of augmented operators, and heap values that reach '
    'that same Python object',
    'animation entry points (they block on a display loop) and helpers taking callables (binop, unop, '
    'arghandler), sort and remove are not exercised; static plotting functions run under the Agg '
    'backend with block=False and every figure is closed after the call',
    're-issued calls use the very same, verified-unchanged input objects (or deep copies when every '
    'array is C-contiguous and owns its data); results must have identical structure, dtype and '
    'shape and values equal to rtol 1e-9 (scipy.linalg.logm behind trlog2 is not bit-reproducible '
    'even on identical inputs, so bit identity of outputs cannot be demanded)',
    'sampling, not proof',
]
MUST_FIRE = ['redeliver', 'reorder_calls', 'rebuild_differential', 'redeliver_after_caller_wrote_into_result',
             'redelivered_on_copies', 'exception_path', 'alias_exemption_used',
             'multi_valued_receiver', 'operand_is_view', 'result_shares_memory']
PROBES = ['result_is_operand', 'result_shares_memory', 'operand_was_earlier_result',
          'operand_is_view', 'operand_fortran_order', 'integer_dtype_operand',
          'multi_valued_receiver', 'exception_path', 'alias_exemption_used', 'operand_is_receiver',
          'redelivered_on_copies']


def summarise(js, raw):
    C = catalogue()
    call = js.get('callables', {})
    found = [e.key for e in C['entries']]
    ok = sorted(k for k in found if call.get(k, {}).get('ok'))
    only_raised = sorted(k for k in found if k in call and not call[k].get('ok'))
    never = sorted(k for k in found if k not in call)
    probes = {k[2:]: v for k, v in js.items() if k.startswith('p_')}
    faults = {k[2:]: v for k, v in js.items() if k.startswith('f_')}
    faults['bad_args_or_wrong_class_calls_that_raised'] = probes.get('exception_path', 0)
    shapes = 0
    for k, d in call.items():
        shapes += len(d)
    return {
        'faults_fired': faults,
        'probes': probes,
        'probes_at_zero': sorted(k for k in PROBES if not probes.get(k)),
        'callables_found': len(found),
        'callables_exercised_ok': len(ok),
        'callables_only_raised': only_raised,
        'callables_never_reached': never,
        'callables_without_template': sorted(e.key for e in C['entries'] if not e.from_table),
        'call_outcome_pairs': shapes,
        'call_shapes': js.get('call_shapes', 0),
        'harness_call_guard_fired': js.get('harness_call_guard_fired', 0),
        'harness_evicted_malformed_objects': js.get('harness_evicted_malformed_objects', 0),
    }
