"""
Minimisation of a failing op sequence: ddmin over steps, then per-step
simplification to a fix-point.  `test(ops)` must return True when the *same
violation class* persists.  Purely deterministic: no PRNG, no clock.
"""


def ddmin(ops, test, max_tests=4000):
    ops = list(ops)
    n = 2
    tests = 0
    while len(ops) >= 2 and tests < max_tests:
        chunk = max(1, len(ops) // n)
        reduced = False
        # try removing each chunk (complements)
        start = 0
        while start < len(ops):
            cand = ops[:start] + ops[start + chunk:]
            tests += 1
            if cand and test(cand):
                ops = cand
                n = max(n - 1, 2)
                reduced = True
                break
            start += chunk
        if not reduced:
            if chunk == 1:
                break
            n = min(n * 2, len(ops))
    return ops


def simplify_steps(ops, test, simplify, max_rounds=20):
    ops = [dict(r) for r in ops]
    for _ in range(max_rounds):
        changed = False
        for k in range(len(ops)):
            progress = True
            while progress:
                progress = False
                for cand_rec in simplify(ops[k]):
                    if cand_rec == ops[k]:
                        continue
                    cand = ops[:k] + [cand_rec] + ops[k + 1:]
                    if test(cand):
                        ops = cand
                        changed = True
                        progress = True
                        break
        if not changed:
            break
    return ops


def minimise(ops, test, simplify):
    """Returns a locally minimal op list for which test() still holds."""
    if not test(ops):
        return list(ops)        # not reproducible as given: report unminimised
    cur = list(ops)
    for _ in range(5):
        before = list(cur)
        cur = ddmin(cur, test)
        cur = simplify_steps(cur, test, simplify)
        if cur == before:
            break
    return cur
