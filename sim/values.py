"""
Value kinds, deterministic value generators, container forms, classification of
results, and deep bit-level snapshots.  Used by the C17 workload.
No PRNG and no clock in here: every generator is a pure function of (kind, k, form).
"""
import math
import re
import struct

import numpy as np

from . import core
from .c10_lists import elem_value, _rot2, _rot3

# --------------------------------------------------------------------------- #
# raw value generators: kind x k -> float64 C-contiguous ndarray (or python scalar)

VEC_KINDS = ['v2', 'v3', 'v4', 'v6', 'uv3', 'q', 'sv3', 'dims', 'v0']
MAT_KINDS = ['R2', 'T2', 'R3', 'T3', 'so2', 'se2', 'so3', 'se3', 'p2', 'p3', 'm66', 'm33',
             'hp2', 'hp3', 'qN', 'tN']
SCALAR_KINDS = ['ang', 'sc', 's01', 'int', 'posint', 'tol', 'bool']
ARRAY_KINDS = VEC_KINDS + MAT_KINDS


def _skew3(v):
    return np.array([[0.0, -v[2], v[1]], [v[2], 0.0, -v[0]], [-v[1], v[0], 0.0]])


def special_array(kind, j):
    """Boundary values (k >= 8): zero / axis vectors, identity and half-turn rotations, slightly
    non-orthonormal matrices, non-unit quaternions.  None when the kind has no special values."""
    j = int(j) % 6
    j0 = j
    e = 1e-10 if j == 4 else (8e-15 if j == 5 else 1e-7)      # inside / outside validity tolerances
    if j >= 4 and kind not in ('R2', 'R3', 'T2', 'T3', 'q'):
        j -= 3
    if j >= 4 and kind != 'q':
        j = 3
    if kind in ('v2', 'v3', 'v4', 'v6') and j0 >= 4:
        # non-finite components: code that "cleans" its input in place lives here
        n = {'v2': 2, 'v3': 3, 'v4': 4, 'v6': 6}[kind]
        v = np.arange(1.0, n + 1.0)
        v[0] = float('nan') if j0 == 4 else float('inf')
        return v
    if kind in ('v2', 'v3', 'v4', 'v6', 'sv3', 'uv3'):
        n = {'v2': 2, 'v3': 3, 'v4': 4, 'v6': 6, 'sv3': 3, 'uv3': 3}[kind]
        v = np.zeros(n)
        if j == 1 or (kind == 'uv3' and j == 0):
            v[0] = 1.0
        elif j == 2:
            v[-1] = 1.0
        elif j == 3:
            v[:] = 1e-20 if kind != 'uv3' else 0.0
            if kind == 'uv3':
                v[1] = -1.0
        return v
    if kind == 'q':
        return [np.array([1.0, 0, 0, 0]), np.array([0.0, 1.0, 0, 0]), np.array([-1.0, 0, 0, 0]),
                np.array([0.0, 0, 0, 1.0]), np.array([1.0 + 1e-10, 0, 0, 0]),
                np.array([2.0, 0, 0, 0])][j]
    if kind == 'R2':
        return [np.eye(2), np.array([[-1.0, 0], [0, -1.0]]), np.array([[0.0, -1.0], [1.0, 0]]),
                np.array([[1.0, e], [-e, 1.0]])][j]
    if kind == 'R3':
        return [np.eye(3), np.diag([1.0, -1.0, -1.0]), np.diag([-1.0, -1.0, 1.0]),
                np.eye(3) + e * np.array([[0, 1.0, 0], [0, 0, 1.0], [1.0, 0, 0]])][j]
    if kind == 'T2':
        T = np.eye(3)
        T[:2, :2] = special_array('R2', j0)
        if j != 0:
            T[:2, 2] = [1.0, -2.0]
        return T
    if kind == 'T3':
        T = np.eye(4)
        T[:3, :3] = special_array('R3', j0)
        if j != 0:
            T[:3, 3] = [1.0, -2.0, 0.5]
        return T
    if kind in ('so2', 'so3', 'se2', 'se3'):
        n = {'so2': 2, 'so3': 3, 'se2': 3, 'se3': 4}[kind]
        S = np.zeros((n, n))
        if j == 1 and kind == 'so3':
            S[0, 1], S[1, 0] = -math.pi, math.pi
        if j == 1 and kind == 'se3':
            S[0, 1], S[1, 0] = -math.pi, math.pi
        if j == 2 and kind in ('se2', 'se3'):
            S[0, -1] = 1.0           # pure translation
        if j == 3 and kind in ('so2', 'se2'):
            S[0, 1], S[1, 0] = -math.pi, math.pi
        return S
    return None


def extra_special(kind, k):
    if kind == 'R3' and k == 14:
        return np.diag([1.0, 1.0, -1.0])            # orthogonal, determinant -1
    if kind == 'R2' and k == 14:
        return np.array([[1.0, 0.0], [0.0, -1.0]])
    if kind in ('T3', 'T2') and k == 14:
        n = 4 if kind == 'T3' else 3
        T = np.eye(n)
        T[:n - 1, n - 1] = [2.5e6, -1e7, 3e8][:n - 1]
        return T
    if kind == 'v3' and k == 14:
        return np.array([2.5e6, -1e7, 3e8])
    if kind == 'q' and k == 14:
        return np.array([1.0, 5e-324, 0.0, 0.0])   # a subnormal component
    return None


def gen_array(kind, k):
    k = int(k)
    if k >= 14:
        sp = extra_special(kind, k)
        if sp is not None:
            return sp
    if k >= 8 and not (kind in ('p2', 'p3', 'hp2', 'hp3') and k == 13):
        sp = special_array(kind, k - 8)
        if sp is not None:
            return sp
    if kind == 'dims':      # plot volume: [lo, hi] or [xlo, xhi, ylo, yhi(, zlo, zhi)]
        n = [2, 4, 6][k % 3]
        return np.array([(-2.0 - 0.5 * (k % 4)) if i % 2 == 0 else (2.0 + 0.25 * (k % 4)) for i in range(n)])
    if kind == 'v0':
        return np.zeros(0)
    if kind == 'v2':
        return np.array([0.5 * k + 0.25, -0.75 * k + 1.0])
    if kind == 'v3':
        return np.array([0.5 * k + 0.25, -0.75 * k + 1.0, 0.3 * k - 2.0])
    if kind == 'sv3':       # small 3-vector (norm < 1): v2q, small rotations
        return np.array([0.02 * k + 0.01, -0.03 * k + 0.05, 0.01 * k - 0.04]) / (1 + 0.05 * abs(k))
    if kind == 'uv3':
        v = np.array([1.0 + 0.1 * k, -2.0 + 0.3 * k, 0.5 * k + 0.5])
        return v / math.sqrt(float(v @ v))
    if kind == 'v4':
        return np.array([0.5 * k + 0.25, -0.75 * k + 1.0, 0.3 * k - 2.0, 1.5 - 0.1 * k])
    if kind == 'v6':
        return np.array([0.5 * k + 0.25, -0.75 * k + 1.0, 0.3 * k - 2.0,
                         0.1 * k + 0.1, -0.2 * k + 0.3, 0.05 * k - 0.4])
    if kind == 'q':
        # rotation angles over more than a full turn, so that scalar parts of both signs and
        # pairs with a negative inner product occur
        a = [0.3, 2.5, -2.5, 3.9, 5.5, -1.0, 6.0, 0.02][k % 8]
        ax = [np.array([0.0, 0.0, 1.0]), np.array([1.0, 2.0, 3.0]) / math.sqrt(14.0)][(k // 8) % 2]
        q = np.array([math.cos(a / 2), *(math.sin(a / 2) * ax)])
        return q / math.sqrt(float(q @ q))
    if kind == 'R2':
        return _rot2(0.37 * k + 0.11)
    if kind == 'T2':
        return elem_value('SE2', 7 * k + 3)
    if kind == 'R3':
        return _rot3(11 * k + 5)
    if kind == 'T3':
        return elem_value('SE3', 11 * k + 5)
    if kind == 'so2':
        a = 0.21 * k + 0.13
        return np.array([[0.0, -a], [a, 0.0]])
    if kind == 'se2':
        a = 0.21 * k + 0.13
        return np.array([[0.0, -a, 0.5 * k + 1.0], [a, 0.0, -0.25 * k - 0.5], [0.0, 0.0, 0.0]])
    if kind == 'so3':
        return _skew3(gen_array('sv3', k) * 3.0)
    if kind == 'se3':
        S = np.zeros((4, 4))
        S[:3, :3] = _skew3(gen_array('sv3', k) * 3.0)
        S[:3, 3] = gen_array('v3', k)
        return S
    if kind in ('p2', 'p3', 'hp2', 'hp3') and k == 13:
        # a wide point set: "bulk" code paths hide behind size thresholds
        rows = {'p2': 2, 'p3': 3, 'hp2': 3, 'hp3': 4}[kind]
        a = np.fromfunction(lambda i, j: 0.001 * j + 0.5 * i + 0.25, (rows, 1100))
        if kind.startswith('hp'):
            a[-1, :] = 1.0 + 0.001 * np.arange(1100)
        return a
    if kind == 'p2':
        n = 1 + (k % 4)
        return np.array([[0.5 * i + 0.1 * k, -1.0 * i + 0.2 * k + 1] for i in range(n)]).T.copy()
    if kind == 'p3':
        n = 1 + (k % 4)
        return np.array([[0.5 * i + 0.1 * k, -1.0 * i + 0.2 * k + 1, 0.25 * i - k]
                         for i in range(n)]).T.copy()
    if kind == 'hp2':
        p = gen_array('p2', k)
        return np.vstack([p, np.ones((1, p.shape[1]))])
    if kind == 'hp3':
        p = gen_array('p3', k)
        return np.vstack([p, np.ones((1, p.shape[1]))])
    if kind == 'm33':
        return np.array([[2.0 + k, 0.1, -0.2], [0.1, 3.0 + 0.5 * k, 0.3], [-0.2, 0.3, 4.0]])
    if kind == 'm66':
        m = np.eye(6) * (2.0 + 0.5 * k)
        m[0, 5] = m[5, 0] = 0.25 * k
        m[1, 3] = m[3, 1] = -0.5
        return m
    if kind == 'qN':        # N x 4 array of unit quaternions
        n = 1 + (k % 3)
        return np.array([gen_array('q', k + 3 * i) for i in range(n)])
    if kind == 'tN':        # N x 3 array of translations
        n = 1 + (k % 3)
        return np.array([gen_array('v3', k + i) for i in range(n)])
    raise core.HarnessError('no generator for kind ' + str(kind))


def gen_scalar(kind, k):
    k = int(k)
    if kind == 'ang':
        return [0.3, -0.7, 1.2, 0.0, 2.5, -1.9, 0.05, 3.0, math.pi, -math.pi, math.pi / 2,
                2 * math.pi, 180.0, -180.0, 90.0, 360.0][k % 16]
    if kind == 'sc':
        # (no huge magnitudes: x *= n with an integral n repeats a value list n times)
        return [0.5, 2.0, -1.5, 1.0, 0.0, 3.25, -0.25, 10.0, -1.0, 1e-12, 90.0, 180.0, 1e-300, -0.0,
                1000.5, 3.0][k % 16]
    if kind == 's01':
        return [0.0, 1.0, 0.5, 0.25, 0.9, 0.1][k % 6]
    if kind == 'int':
        return [2, 0, 1, -1, 3, -2][k % 6]
    if kind == 'posint':
        return [1, 2, 3, 4][k % 4]
    if kind == 'tol':
        return [10, 100, 1][k % 3]
    if kind == 'bool':
        return bool(k % 2)
    raise core.HarnessError('no scalar generator for kind ' + str(kind))


# forms a vector / matrix argument can take
VEC_FORMS = ['array', 'list', 'tuple', 'row', 'col', 'intarray', 'intlist', 'view', 'strided',
             'f32', 'f16', 'bigendian']
# (a one-shot iterator was tried as a form and dropped: DualQuaternion keeps a reference to whatever
#  it is given, so a consumed iterator lives on inside a heap object and no call on that object can
#  be delivered twice)
MAT_FORMS = ['array', 'fortran', 'view', 'strided', 'transposed', 'nested', 'intarray', 'f32',
             'bigendian']
# (read-only, complex and masked arrays were tried as forms late in the work and withdrawn: each new
#  form needs a long seed soak before it can be trusted not to raise false alarms, see DESIGN 9.2)


def to_form(a, form):
    """Present float64 array a in another container form (value preserved unless 'int*')."""
    if form in ('intarray', 'intlist') and not np.all(np.isfinite(a)):
        form = 'array' if form == 'intarray' else 'list'      # no integer form of nan / inf
    if form == 'array':
        return np.array(a)
    if form == 'list':
        return [float(x) for x in a.ravel()] if a.ndim == 1 else [list(map(float, r)) for r in a]
    if form == 'nested':
        return [list(map(float, r)) for r in a] if a.ndim == 2 else [float(x) for x in a]
    if form == 'tuple':
        return tuple(float(x) for x in a.ravel()) if a.ndim == 1 else tuple(map(tuple, a.tolist()))
    if form == 'row':
        return np.array(a).reshape(1, -1) if a.ndim == 1 else np.array(a)
    if form == 'col':
        return np.array(a).reshape(-1, 1) if a.ndim == 1 else np.array(a)
    if form == 'intarray':
        return np.array(np.round(a * 4), dtype=np.int64)
    if form == 'intlist':
        return [int(round(float(x) * 4)) for x in a.ravel()] if a.ndim == 1 else np.array(a)
    if form == 'f32':
        return np.array(a, dtype=np.float32)
    if form == 'f16':
        return np.array(a, dtype=np.float16)
    if form == 'bigendian':
        return np.array(a, dtype='>f8')
    if form == 'readonly':
        r = np.array(a)
        r.setflags(write=False)
        return r
    if form == 'complex':
        return np.array(a, dtype=complex)
    if form == 'masked':
        return np.ma.array(np.array(a))
    if form == 'iterator':
        return iter([float(x) for x in a.ravel()])
    if form == 'fortran':
        return np.asfortranarray(np.array(a))
    if form == 'transposed':
        return np.array(a.T).T if a.ndim == 2 else np.array(a)
    if form == 'view':
        if a.ndim == 1:
            big = np.full(a.shape[0] + 4, 7.5)
            big[2:-2] = a
            return big[2:-2]
        big = np.full((a.shape[0] + 2, a.shape[1] + 3), 7.5)
        big[1:-1, 1:-2] = a
        return big[1:-1, 1:-2]
    if form == 'strided':
        if a.ndim == 1:
            big = np.full(2 * a.shape[0], 7.5)
            big[::2] = a
            return big[::2]
        big = np.full((2 * a.shape[0], 2 * a.shape[1]), 7.5)
        big[::2, ::2] = a
        return big[::2, ::2]
    raise core.HarnessError('unknown form ' + str(form))


# --------------------------------------------------------------------------- #
# classification of values found on the heap (used to choose operands)

def _is_rot(a):
    n = a.shape[0]
    return bool(np.allclose(a @ a.T, np.eye(n), atol=1e-8) and abs(np.linalg.det(a) - 1) < 1e-8)


def classify_array(a):
    if a.dtype.kind not in 'fiu':
        return 'misc'
    if not np.all(np.isfinite(a)):
        return 'misc'
    sh = a.shape
    if a.ndim == 1:
        n = sh[0]
        if n == 4 and abs(float(a @ a) - 1) < 1e-9:
            return 'q'
        if n == 3 and abs(float(a @ a) - 1) < 1e-9:
            return 'uv3'
        return {2: 'v2', 3: 'v3', 4: 'v4', 6: 'v6'}.get(n, 'misc')
    if a.ndim == 2:
        if sh == (2, 2):
            if _is_rot(a):
                return 'R2'
            if np.allclose(a, -a.T, atol=1e-12):
                return 'so2'
            return 'misc'
        if sh == (3, 3):
            if _is_rot(a):
                return 'R3'
            if np.allclose(a[2], [0, 0, 1]) and _is_rot(a[:2, :2]):
                return 'T2'
            if np.allclose(a, -a.T, atol=1e-12):
                return 'so3'
            if np.allclose(a[2], 0) and abs(a[0, 0]) < 1e-12 and abs(a[1, 1]) < 1e-12 \
                    and abs(a[0, 1] + a[1, 0]) < 1e-12:
                return 'se2'
            return 'm33'
        if sh == (4, 4):
            if np.allclose(a[3], [0, 0, 0, 1]) and _is_rot(a[:3, :3]):
                return 'T3'
            if np.allclose(a[3], 0) and np.allclose(a[:3, :3], -a[:3, :3].T, atol=1e-12):
                return 'se3'
            return 'misc'
        if sh == (6, 6):
            return 'm66'
        if sh[0] == 3 and sh[1] <= 8:
            return 'p3'
        if sh[0] == 2 and sh[1] <= 8:
            return 'p2'
        if sh[0] == 1 or sh[1] == 1:
            return {2: 'v2', 3: 'v3', 4: 'v4', 6: 'v6'}.get(max(sh), 'misc')
    return 'misc'


def classify(v):
    """-> kind string for a heap value."""
    if isinstance(v, np.ndarray):
        if v.size > 400 or type(v) is not np.ndarray:       # masked arrays, matrices: not reused
            return 'misc'
        return classify_array(v)
    if isinstance(v, bool):
        return 'bool'
    if isinstance(v, (int, float, np.floating, np.integer)):
        return 'sc'
    if isinstance(v, (list, tuple)):
        try:
            if len(v) and all(isinstance(x, (int, float)) and not isinstance(x, bool) for x in v):
                return {2: 'v2', 3: 'v3', 4: 'v4', 6: 'v6'}.get(len(v), 'misc')
        except Exception:                                            # noqa: BLE001
            pass
        return 'misc'
    mod = type(v).__module__ or ''
    if mod.startswith('spatialmath'):
        return 'obj:' + type(v).__name__
    return 'misc'


# --------------------------------------------------------------------------- #
# deep bit-level snapshots

_ADDR = re.compile(r' at 0x[0-9a-fA-F]+')


def _fbits(x):
    return struct.pack('<d', float(x))


def snapshot(v, depth=0, seen=None):
    """Canonical, comparable, immutable picture of a value, down to the bytes of arrays."""
    if depth > 8:
        return ('deep',)
    if isinstance(v, (list, tuple, dict)) or (type(v).__module__ or '').startswith('spatialmath'):
        # a container that contains itself (x.insert(0, x) on a zero-valued object does that) is
        # cut at the point of recursion instead of being unfolded exponentially
        seen = seen or ()
        if any(v is s_ for s_ in seen):
            return ('cycle',)
        seen = seen + (v,)
    if isinstance(v, np.ndarray):
        if v.dtype == object:
            return ('ndobj', v.shape, tuple(snapshot(x, depth + 1, seen) for x in v.ravel().tolist()[:4096]))
        if isinstance(v, np.ma.MaskedArray):
            return ('ndmasked', v.shape, v.dtype.str, np.asarray(v.data).tobytes(),
                    np.ma.getmaskarray(v).tobytes())
        return ('nd', v.shape, v.dtype.str, v.tobytes(), bool(v.flags.writeable))
    if v is None or isinstance(v, (bool, str, bytes)):
        return ('lit', type(v).__name__, v)
    if isinstance(v, (int, np.integer)):
        return ('int', type(v).__name__, int(v))
    if isinstance(v, (float, np.floating)):
        return ('flt', type(v).__name__, _fbits(v))
    if isinstance(v, complex):
        return ('cpx', _fbits(v.real), _fbits(v.imag))
    if isinstance(v, (list, tuple)):
        return (type(v).__name__, tuple(snapshot(x, depth + 1, seen) for x in v))
    if isinstance(v, dict):
        return ('dict', tuple((repr(k), snapshot(v[k], depth + 1, seen)) for k in v))
    mod = type(v).__module__ or ''
    if mod.startswith('spatialmath'):
        d = getattr(v, '__dict__', {})
        pub = tuple((k, snapshot(d[k], depth + 1, seen)) for k in sorted(d)
                    if not k.startswith('_'))
        return ('obj', type(v).__name__, pub)
    return ('other', type(v).__name__, _ADDR.sub(' at 0x?', repr(v)[:200]))


def diff_path(a, b, path='$'):
    """First path at which two snapshots differ (for the violation report)."""
    if a == b:
        return None
    if not isinstance(a, tuple) or not isinstance(b, tuple) or len(a) != len(b) or a[:1] != b[:1]:
        return path
    if a[0] == 'nd':
        if a[1] != b[1]:
            return path + '.shape'
        if a[2] != b[2]:
            return path + '.dtype'
        return path + '.bytes'
    for i, (x, y) in enumerate(zip(a, b)):
        if x != y:
            if isinstance(x, tuple) and isinstance(y, tuple):
                return diff_path(x, y, '%s[%d]' % (path, i))
            return '%s[%d]' % (path, i)
    return path


def describe_snapshot(s, limit=6):
    """Human-readable short form of a snapshot (arrays decoded)."""
    if isinstance(s, tuple) and s and s[0] == 'nd':
        try:
            a = np.frombuffer(s[3], dtype=np.dtype(s[2])).reshape(s[1])
            return {'shape': list(s[1]), 'dtype': s[2], 'head': [float(x) for x in a.ravel()[:limit]]}
        except Exception:                                            # noqa: BLE001
            return {'shape': list(s[1]), 'dtype': s[2]}
    if isinstance(s, tuple) and s and s[0] == 'obj':
        return {'class': s[1]}
    return repr(s)[:120]


def reach_ids(v, acc=None, depth=0):
    """ids of the mutable python objects reachable from v (objects, lists, dicts, arrays)."""
    if acc is None:
        acc = set()
    if depth > 8 or id(v) in acc:
        return acc
    if isinstance(v, np.ndarray):
        acc.add(id(v))
        return acc
    if isinstance(v, (list, tuple)):
        if isinstance(v, list):
            acc.add(id(v))
        for x in v:
            reach_ids(x, acc, depth + 1)
        return acc
    if isinstance(v, dict):
        acc.add(id(v))
        for x in v.values():
            reach_ids(x, acc, depth + 1)
        return acc
    mod = type(v).__module__ or ''
    if mod.startswith('spatialmath'):
        acc.add(id(v))
        for x in getattr(v, '__dict__', {}).values():
            reach_ids(x, acc, depth + 1)
    return acc


def array_leaves(v, out=None, depth=0):
    """All ndarrays reachable from v."""
    if out is None:
        out = []
    if depth > 8:
        return out
    if isinstance(v, np.ndarray):
        out.append(v)
    elif isinstance(v, (list, tuple)):
        for x in v:
            array_leaves(x, out, depth + 1)
    elif (type(v).__module__ or '').startswith('spatialmath'):
        for x in getattr(v, '__dict__', {}).values():
            array_leaves(x, out, depth + 1)
    return out


def approx_equal(a, b, rtol=1e-9, atol=1e-12):
    """Equality of two snapshots up to floating-point noise in array / float leaves
    (scipy.linalg.logm, used by trlog2, is not bit-reproducible even on identical inputs)."""
    if a == b:
        return True
    if not isinstance(a, tuple) or not isinstance(b, tuple) or len(a) != len(b):
        return False
    if a and b and a[0] == 'nd' and b[0] == 'nd':
        if a[1] != b[1] or a[2] != b[2]:
            return False
        dt = np.dtype(a[2])
        if dt.kind not in 'fc':
            return False
        x = np.frombuffer(a[3], dtype=dt)
        y = np.frombuffer(b[3], dtype=dt)
        return bool(np.allclose(x, y, rtol=rtol, atol=atol, equal_nan=True))
    if a and b and a[0] == 'flt' and b[0] == 'flt':
        x = struct.unpack('<d', a[2])[0]
        y = struct.unpack('<d', b[2])[0]
        return bool(np.isclose(x, y, rtol=rtol, atol=atol, equal_nan=True))
    for x, y in zip(a, b):
        if x != y:
            if isinstance(x, tuple) and isinstance(y, tuple):
                if not approx_equal(x, y, rtol, atol):
                    return False
            else:
                return False
    return True


def structure(s, depth=0):
    """Value-free outline of a snapshot (types and shapes only) for the event log."""
    if not isinstance(s, tuple) or not s:
        return '?'
    t = s[0]
    if t == 'nd':
        return 'nd%s%s' % (list(s[1]), s[2])
    if t in ('list', 'tuple'):
        if depth > 2:
            return t
        return '%s(%s)' % (t, ','.join(structure(x, depth + 1) for x in s[1][:6]))
    if t == 'obj':
        n = ''
        for k, v in s[2]:
            if k == 'data' and isinstance(v, tuple) and v[0] == 'list':
                n = '#%d' % len(v[1])
        return s[1] + n
    return t
